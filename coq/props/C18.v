(* C18 — Config loading: exact plugin lists and listen addresses; errors, not panics.
   The model (coq/model/Config.v) starts from the DECODED tree (what viper.Get returns for
   server4 / server6): YAML decoding and viper are an oracle, so "arguments" means the words of
   cast.ToString of the decoded value (keys are lower-cased and YAML-typed scalars re-rendered by
   that layer).  net.ParseIP / strconv.Atoi are oracles O; ifaces is what net.Interfaces() lists.
   Stated openly: a port outside 0..65535 is accepted by Load (it is an integer). *)
From Verif Require Import Base BaseProofs Net NetProofs Msg4 FilePlugin Setup PluginRun Config ConfigRun ConfigProofs.
Open Scope N_scope.

Theorem plugins_exact :
  forall items : list yv,
  Forall one_key items -> parse_plugins items = COk (map item_plugin items).
Proof. exact (@ConfigProofs.plugins_exact). Qed.
Print Assumptions plugins_exact.

Theorem plugins_section_ok :
  forall (server : option yv) (it : yv) (items : list yv),
  yget [112; 108; 117; 103; 105; 110; 115] server = Some (YList (it :: items)) ->
  Forall one_key (it :: items) -> get_plugins server = COk (map item_plugin (it :: items)).
Proof. exact (@ConfigProofs.plugins_section_ok). Qed.
Print Assumptions plugins_section_ok.

Theorem plugins_reject_item :
  forall items : list yv,
  Exists (fun it : yv => ~ one_key it) items -> parse_plugins items = CErr 2.
Proof. exact (@ConfigProofs.plugins_reject_item). Qed.
Print Assumptions plugins_reject_item.

Theorem plugins_reject_section :
  forall server : option yv,
  match yget [112; 108; 117; 103; 105; 110; 115] server with
  | Some (YList (_ :: _)) => False
  | _ => True
  end -> get_plugins server = CErr 1.
Proof. exact (@ConfigProofs.plugins_reject_section). Qed.
Print Assumptions plugins_reject_section.

Theorem listen_roundtrip :
  forall (A Z P : bytes) (bracket : bool),
  clean A ->
  has PCT A = false ->
  clean Z ->
  has PCT Z = false ->
  has COLON Z = false ->
  clean P ->
  has COLON P = false ->
  (bracket = false -> has COLON A = false) ->
  split_host_port (render A Z P bracket) = Some (A, Z, P).
Proof. exact (@ConfigProofs.listen_roundtrip). Qed.
Print Assumptions listen_roundtrip.

Theorem listen_defaults :
  forall (O0 : oracles) (v6 : bool) (addr zone : bytes),
  split_host_port addr = Some ([], zone, []) ->
  get_listen_address O0 v6 addr =
  COk
  {|
  ua_ip := if v6 then zeros 16 else v4in6_prefix ++ [0; 0; 0; 0];
  ua_port := if v6 then 547%Z else 67%Z;
  ua_zone := zone
  |}.
Proof. exact (@ConfigProofs.listen_defaults). Qed.
Print Assumptions listen_defaults.

Theorem listen_family :
  forall (O : oracles) (v6 : bool) (addr ipstr zone portstr : bytes),
  split_host_port addr = Some (ipstr, zone, portstr) ->
  ipstr <> [] ->
  (o_parse_ip O ipstr = None -> get_listen_address O v6 addr = CErr 5) /\
  (forall ip : bytes,
  o_parse_ip O ipstr = Some ip ->
  match to4 ip with
  | Some _ => negb v6
  | None => v6
  end = false -> get_listen_address O v6 addr = CErr 5) /\
  (forall ip : bytes,
  o_parse_ip O ipstr = Some ip ->
  match to4 ip with
  | Some _ => negb v6
  | None => v6
  end = true ->
  get_listen_address O v6 addr =
  match portstr with
  | [] => COk {| ua_ip := ip; ua_port := if v6 then 547%Z else 67%Z; ua_zone := zone |}
  | _ :: _ =>
  match o_atoi O portstr with
  | Some p => COk {| ua_ip := ip; ua_port := p; ua_zone := zone |}
  | None => CErr 6
  end
  end).
Proof. exact (@ConfigProofs.listen_family). Qed.
Print Assumptions listen_family.

Theorem listen_syntax_error :
  forall (O : oracles) (v6 : bool) (addr : bytes),
  split_host_port addr = None -> get_listen_address O v6 addr = CErr 4.
Proof. exact (@ConfigProofs.listen_syntax_error). Qed.
Print Assumptions listen_syntax_error.

Theorem listen_and_interface_exclusive :
  forall (O : oracles) (ifaces : list (bytes * bool * bool)) (v6 : bool)
  (server : option yv) (l i : yv),
  yget [108; 105; 115; 116; 101; 110] server = Some l ->
  yget [105; 110; 116; 101; 114; 102; 97; 99; 101] server = Some i ->
  parse_listen O ifaces v6 server = CErr 3.
Proof. exact (@ConfigProofs.listen_and_interface_exclusive). Qed.
Print Assumptions listen_and_interface_exclusive.

Theorem listen_multicast_expand :
  forall (ifaces : list (bytes * bool * bool)) (a : udpaddr),
  expand_mc ifaces a =
  (let need_bc := match to4 (ua_ip a) with
  | Some _ => true
  | None => false
  end in
  match filter (fun '(_, mc, bc) => mc && (negb need_bc || bc)) ifaces with
  | [] => CErr 7
  | p :: l =>
  COk
  (map
  (fun i : bytes * bool * bool =>
  {| ua_ip := ua_ip a; ua_port := ua_port a; ua_zone := fst (fst i) |})
  (p :: l))
  end).
Proof. exact (@ConfigProofs.listen_multicast_expand). Qed.
Print Assumptions listen_multicast_expand.

Theorem listen_absent_defaults :
  forall (O : oracles) (ifaces : list (bytes * bool * bool)) (v6 : bool) (server : option yv),
  yget [108; 105; 115; 116; 101; 110] server = None ->
  yget [105; 110; 116; 101; 114; 102; 97; 99; 101] server = None ->
  parse_listen O ifaces v6 server = default_listen ifaces v6.
Proof. exact (@ConfigProofs.listen_absent_defaults). Qed.
Print Assumptions listen_absent_defaults.

Theorem load_needs_a_section :
  forall (O : oracles) (ifaces : list (bytes * bool * bool)) (root : yv),
  yget [115; 101; 114; 118; 101; 114; 54] (Some root) = None ->
  yget [115; 101; 114; 118; 101; 114; 52] (Some root) = None ->
  load_config O ifaces root = CErr 8.
Proof. exact (@ConfigProofs.load_needs_a_section). Qed.
Print Assumptions load_needs_a_section.

Theorem config_model_total :
  forall (O : oracles) (ifs : list (bytes * bool * bool)) (root : yv),
  exists
  r : cres
  (option (list udpaddr * list (bytes * list bytes)) *
  option (list udpaddr * list (bytes * list bytes))),
  load_config O ifs root = r /\ match r with
  | COk _ | _ => True
  end.
Proof. exact (@ConfigProofs.config_model_total). Qed.
Print Assumptions config_model_total.


(* Non-vacuity: "[fe80::1%eth0]:547" is the rendering of (fe80::1, eth0, 547) and splits back;
   a two-plugin section parses to the two (name, words) pairs *)
Example hypotheses_satisfiable :
  split_host_port [91;102;101;56;48;58;58;49;37;101;116;104;48;93;58;53;52;55] = Some ([102;101;56;48;58;58;49], [101;116;104;48], [53;52;55]) /\
  render [102;101;56;48;58;58;49] [101;116;104;48] [53;52;55] true = [91;102;101;56;48;58;58;49;37;101;116;104;48;93;58;53;52;55] /\
  get_plugins (Some (YMap [([112;108;117;103;105;110;115], YList [YMap [([100;110;115], YStr [49;46;49;46;49;46;49;32;56;46;56;46;56;46;56])]; YMap [([109;116;117], YInt 1500)]])])) =
    COk [([100;110;115], [[49;46;49;46;49;46;49]; [56;46;56;46;56;46;56]]); ([109;116;117], [[49;53;48;48]])].
Proof. vm_compute. repeat split; reflexivity. Qed.
