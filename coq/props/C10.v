(* C10 — Static lease file: served mapping equals the file, updates are all-or-nothing.
   parse_line / load_file model LoadDHCPv4Records / LoadDHCPv6Records (v6 selects the loader) with
   net.ParseMAC / net.ParseIP as oracles O; the table is the plugin's ONE package-global
   StaticRecords.  The last clause of the property ("the DHCPv4 and DHCPv6 instances each serve
   from their own file") is FALSE of the current code: file_per_protocol_refuted gives the witness
   (known finding F10); file_single_instance is what holds: with one instance the served table
   is always the last content of its file that loaded. *)
From Verif Require Import Base BaseProofs Net NetProofs Msg4 Msg6 Chain Server4 RangePlugin Plugins4 Plugins6 Setup PluginRun FilePlugin FileRun FileProofs.
Open Scope N_scope.

Theorem file_rejected_iff :
  forall (O : oracles) (v6 : bool) (data : bytes),
  load_file O v6 data = None <-> Exists (bad_line O v6) (split_nl data []).
Proof. exact (@FileProofs.file_rejected_iff). Qed.
Print Assumptions file_rejected_iff.

Theorem file_mapping_spec :
  forall (O : oracles) (v6 : bool) (data : bytes) (t : list (bytes * bytes)),
  load_file O v6 data = Some t ->
  forall m : bytes, tget m t = last_match m (entries O v6 (split_nl data [])).
Proof. exact (@FileProofs.file_mapping_spec). Qed.
Print Assumptions file_mapping_spec.

Theorem parse_line_entry :
  forall (O : oracles) (v6 : bool) (line k ip : bytes),
  parse_line O v6 line = LEntry k ip <->
  (exists (c : N) (rest : list N) (t0 t1 hw : bytes),
  line = c :: rest /\
  c <> 35 /\
  fields line [] = [t0; t1] /\
  o_parse_mac O t0 = Some hw /\
  o_parse_ip O t1 = Some ip /\
  k = mac_string hw /\ (if v6 then to16 ip <> None /\ to4 ip = None else to4 ip <> None)).
Proof. exact (@FileProofs.parse_line_entry). Qed.
Print Assumptions parse_line_entry.

Theorem file_handler4_spec :
  forall (t : ftable) (req resp : msg4),
  file_handler4 t req resp =
  match ft_get (mac_string (m_chaddr req)) t with
  | Some ip => (Some (set_yiaddr resp ip), true)
  | None => (Some resp, false)
  end.
Proof. exact (@FileProofs.file_handler4_spec). Qed.
Print Assumptions file_handler4_spec.

Theorem file_handler6_spec :
  forall (t : ftable) (req resp : pkt6) (m : imsg),
  p_inner req = Some m ->
  file_handler6 t req resp =
  match o6_get OPT_IANA (i_opts m) with
  | Some ia =>
  match extract_mac req with
  | Some mac =>
  match ft_get (mac_string mac) t with
  | Some ip => (Some (resp_add OPT_IANA (iana_payload (firstn 4 ia) ip) resp), false)
  | None => (Some resp, false)
  end
  | None => (Some resp, false)
  end
  | None => (Some resp, false)
  end.
Proof. exact (@FileProofs.file_handler6_spec). Qed.
Print Assumptions file_handler6_spec.

Theorem file_refresh_all_or_nothing :
  forall (O : oracles) (v6 : bool) (data : bytes) (t : ftable),
  reload O v6 (Some data) t =
  match load_file O v6 data with
  | Some l => (Some l, true)
  | None => (t, false)
  end.
Proof. exact (@FileProofs.file_refresh_all_or_nothing). Qed.
Print Assumptions file_refresh_all_or_nothing.

Theorem file_unreadable_keeps :
  forall (O : oracles) (v6 : bool) (t : ftable), reload O v6 None t = (t, false).
Proof. exact (@FileProofs.file_unreadable_keeps). Qed.
Print Assumptions file_unreadable_keeps.

Theorem file_single_instance_partial :
  forall (O : oracles) (v6 : bool) (ops : list fop) (t : ftable),
  Forall (same_proto v6) ops -> ffinal O t ops = last_good O v6 t ops.
Proof. exact (@FileProofs.file_single_instance). Qed.
Print Assumptions file_single_instance_partial.

Theorem file_per_protocol_refuted :
  let O := oracles_of x_tables in
  let t := ffinal O None [FSetup false (Some x_file4); FSetup true (Some x_file6)] in
  fst (file_handler4 t x_req (reply_stub x_req)) = Some (set_yiaddr (reply_stub x_req) x_ip6) /\
  ser_ok (set_yiaddr (reply_stub x_req) x_ip6) = false /\
  ft_get (mac_string [2; 0; 0; 0; 0; 1]) (ffinal O None [FSetup false (Some x_file4)]) =
  Some (v4in6_prefix ++ [10; 0; 0; 5]).
Proof. exact (@FileProofs.file_per_protocol_refuted). Qed.
Print Assumptions file_per_protocol_refuted.


(* Non-vacuity: the witness of file_per_protocol_refuted is a concrete pair of well-formed lease
   files, both of which load *)
Example hypotheses_satisfiable :
  load_file (oracles_of x_tables) false x_file4 = Some [(mac_string [2;0;0;0;0;1], v4in6_prefix ++ [10;0;0;5])] /\
  load_file (oracles_of x_tables) true x_file6 = Some [(mac_string [2;0;0;0;0;1], x_ip6)] /\
  load_file (oracles_of x_tables) true x_file4 = None.
Proof. vm_compute. repeat split; reflexivity. Qed.
