#!/usr/bin/env python3
"""keep_mut.py Cxx mi "<confirm RESULT line>" : copy a confirmed seeded change into /verif/seeded/Cxx-mi/"""
import sys, json, os, shutil, glob
p, m, res = sys.argv[1], sys.argv[2], sys.argv[3]
src = '/tmp/mut-%s-out/%s' % (p, m)
dst = '/verif/seeded/%s-%s' % (p, m)
os.makedirs(dst, exist_ok=True)
for f in glob.glob(src + '/*'):
    if os.path.isfile(f):
        shutil.copy(f, dst)
meta = json.load(open(src + '/meta.json'))
meta['property'] = p
meta['confirmed'] = {'how': 'tools/confirm_mut.sh %s %s in the scratch worktree /tmp/mut-%s: go build ./... and go build -tags verif ./... succeed, go test -vet=off -count=1 ./... passes, the demonstration passes on the pristine tree and fails with the change' % (p, m, p), 'result': res}
json.dump(meta, open(dst + '/meta.json', 'w'), indent=1)
