(* ConcRW.v — the reduction of lib/Conc.v for a READER/WRITER lock (sync.RWMutex, as the file plugin
   uses it): threads that each run one critical section of micro-steps; a writer's section excludes
   everybody, readers' sections may overlap one another at any granularity, and a reader's
   micro-steps do not change the shared state.  Every interleaving ends in the state, and gives
   every thread the result, of running the critical sections one after the other in the order in
   which they were LEFT (a reader sees the same shared state during its whole section, so it can be
   placed at its release).  New readers are admitted while readers hold the lock; Go's RWMutex
   additionally holds them back while a writer waits, which only removes schedules. *)
From Coq Require Import List Arith Lia Permutation Bool.
From Verif Require Import Conc.
Import ListNotations.

Section RW.
Variables (St Lo Re : Type).

Inductive kind := Reader | Writer.
Record rwop := { w_kind : kind; w_init : Lo; w_crit : list (St * Lo -> St * Lo); w_res : Lo -> Re }.

Inductive rtstate := RIdle | RRunning (rest : list (St * Lo -> St * Lo)) (l : Lo) | RDone (r : Re).

(* the lock: held by the readers listed (nobody when the list is empty), or by one writer *)
Inductive rwlock := LR (readers : list nat) | LW (t : nat).

Record rcfg := { rsh : St; rlock : rwlock; rthr : list rtstate }.

Variable ops : list rwop.
Variable s0 : St.

(* readers do not write *)
Hypothesis read_only : forall t o, nth_error ops t = Some o -> w_kind o = Reader ->
  forall f, In f (w_crit o) -> forall s l, fst (f (s, l)) = s.

Definition drop (t : nat) (l : list nat) : list nat := filter (fun u => negb (Nat.eqb u t)) l.

Definition rstep (c : rcfg) (t : nat) : rcfg :=
  match nth_error ops t, nth_error (rthr c) t with
  | Some o, Some RIdle =>
      match w_kind o, rlock c with
      | Reader, LR rs => {| rsh := rsh c; rlock := LR (t :: rs); rthr := upd t (RRunning (w_crit o) (w_init o)) (rthr c) |}
      | Writer, LR [] => {| rsh := rsh c; rlock := LW t; rthr := upd t (RRunning (w_crit o) (w_init o)) (rthr c) |}
      | _, _ => c                                        (* blocked *)
      end
  | Some o, Some (RRunning [] l) =>
      {| rsh := rsh c;
         rlock := match rlock c with LR rs => LR (drop t rs) | LW _ => LR [] end;
         rthr := upd t (RDone (w_res o l)) (rthr c) |}
  | Some o, Some (RRunning (f :: rest) l) =>
      let '(s', l') := f (rsh c, l) in {| rsh := s'; rlock := rlock c; rthr := upd t (RRunning rest l') (rthr c) |}
  | _, _ => c
  end.

Definition rinit : rcfg := {| rsh := s0; rlock := LR []; rthr := map (fun _ => RIdle) ops |}.
Definition rrun (sched : list nat) : rcfg := fold_left rstep sched rinit.

(* the serial semantics: one whole critical section at a time *)
Definition micro (ms : list (St * Lo -> St * Lo)) (x : St * Lo) : St * Lo := fold_left (fun x f => f x) ms x.
Definition rastep (s : St) (o : rwop) : St * Re := let '(s', l') := micro (w_crit o) (s, w_init o) in (s', w_res o l').

Fixpoint rserial (sigma : list nat) (s : St) : St * list (nat * Re) :=
  match sigma with
  | [] => (s, [])
  | t :: sg => match nth_error ops t with
               | Some o => let '(s1, r) := rastep s o in let '(s2, rs) := rserial sg s1 in (s2, (t, r) :: rs)
               | None => rserial sg s
               end
  end.

Lemma rserial_snoc sigma t o s : nth_error ops t = Some o ->
  rserial (sigma ++ [t]) s = let '(s1, rs) := rserial sigma s in let '(s2, r) := rastep s1 o in (s2, rs ++ [(t, r)]).
Proof.
  intros Ho. revert s. induction sigma as [|u sg IH]; intros s; cbn [app rserial].
  - rewrite Ho. destruct (rastep s o). reflexivity.
  - destruct (nth_error ops u) as [ou|]; [|apply IH]. destruct (rastep s ou) as [s1 r]. rewrite IH.
    destruct (rserial sg s1) as [s2 rs]. destruct (rastep s2 o). reflexivity.
Qed.

Lemma drop_In t u l : In u (drop t l) <-> In u l /\ u <> t.
Proof.
  unfold drop. rewrite filter_In. split; intros [H1 H2]; split; try exact H1.
  - intros ->. rewrite Nat.eqb_refl in H2. discriminate.
  - apply negb_true_iff. apply Nat.eqb_neq. exact H2.
Qed.

Lemma drop_NoDup t l : NoDup l -> NoDup (drop t l).
Proof. apply NoDup_filter. Qed.

(* a reader's whole prefix of micro-steps leaves the shared state alone *)
Lemma micro_read_only ms s l : (forall f, In f ms -> forall s l, fst (f (s, l)) = s) -> fst (micro ms (s, l)) = s.
Proof.
  revert s l. induction ms as [|f ms IH]; intros s l H; [reflexivity|]. cbn [micro fold_left].
  destruct (f (s, l)) as [s1 l1] eqn:Ef. assert (s1 = s) by (rewrite <- (H f (or_introl eq_refl) s l), Ef; reflexivity). subst s1.
  apply IH. intros g Hg. apply H. right. exact Hg.
Qed.

(* running threads: what is known about one of them, relative to a base state *)
Definition running_from (c : rcfg) (t : nat) (k : kind) (base : St) : Prop :=
  exists o rest l pre, nth_error ops t = Some o /\ w_kind o = k /\ nth_error (rthr c) t = Some (RRunning rest l) /\
                       w_crit o = pre ++ rest /\ (rsh c, l) = micro pre (base, w_init o).

(* sigma = the threads that have left their critical section, in that order *)
Definition RInv (c : rcfg) : Prop :=
  length (rthr c) = length ops /\
  exists sigma, NoDup sigma /\
    (forall t, In t sigma -> exists r, nth_error (rthr c) t = Some (RDone r) /\ In (t, r) (snd (rserial sigma s0))) /\
    match rlock c with
    | LR rs => rsh c = fst (rserial sigma s0) /\ NoDup rs /\
               (forall t, In t rs -> ~ In t sigma /\ running_from c t Reader (rsh c)) /\
               (forall t, t < length ops -> ~ In t sigma -> ~ In t rs -> nth_error (rthr c) t = Some RIdle)
    | LW h => ~ In h sigma /\ running_from c h Writer (fst (rserial sigma s0)) /\
              (forall t, t < length ops -> ~ In t sigma -> t <> h -> nth_error (rthr c) t = Some RIdle)
    end.

Lemma rinv_init : RInv rinit.
Proof.
  split; [cbn; apply map_length|]. exists []. split; [constructor|]. split; [intros t []|]. cbn [rinit rlock rsh rserial fst].
  split; [reflexivity|]. split; [constructor|]. split; [intros t []|].
  intros t Ht _ _. cbn [rinit rthr]. rewrite nth_error_map. destruct (nth_error ops t) eqn:E; [reflexivity|].
  apply nth_error_None in E. lia.
Qed.

Lemma rinv_step c t : RInv c -> RInv (rstep c t).
Proof.
  intros (Hlen & sigma & Nd & Hdone & Hlock). unfold rstep.
  destruct (nth_error ops t) as [o|] eqn:Eo; [|split; [exact Hlen|exists sigma; auto]].
  destruct (nth_error (rthr c) t) as [[|rest l|r]|] eqn:Et; try (split; [exact Hlen|exists sigma; auto]).
  - (* idle: tries to take the lock *)
    assert (Htl : t < length (rthr c)) by (eapply nth_error_lt; eassumption).
    assert (Hns : ~ In t sigma).
    { intros Hin. destruct (Hdone t Hin) as (r & Hr & _). congruence. }
    destruct (w_kind o) eqn:Ek; destruct (rlock c) as [rs|h] eqn:El; try (split; [exact Hlen|exists sigma; rewrite El; auto]).
    + (* a reader joins the readers *)
      destruct Hlock as (Hsh & Ndr & Hrs & Hidle).
      assert (Hnr : ~ In t rs).
      { intros Hin. destruct (Hrs t Hin) as (_ & o' & rest & l & pre & _ & _ & Hr & _). congruence. }
      split; [cbn [rthr]; rewrite upd_length; exact Hlen|]. exists sigma. split; [exact Nd|]. cbn [rlock rthr rsh]. split; [|split; [exact Hsh|split; [constructor; assumption|split]]].
      * intros u Hu. destruct (Hdone u Hu) as (r & Hr & Hin). exists r. split; [|exact Hin].
        rewrite nth_upd_other; [exact Hr|]. intros <-. contradiction.
      * intros u [<-|Hu].
        -- split; [exact Hns|]. exists o, (w_crit o), (w_init o), []. cbn [rsh rthr]. split; [exact Eo|]. split; [exact Ek|].
           split; [apply nth_upd_same; exact Htl|]. split; reflexivity.
        -- destruct (Hrs u Hu) as (Hnu & o' & rest & l & pre & Ho' & Hk' & Hr & Hc & Hm). split; [exact Hnu|].
           exists o', rest, l, pre. cbn [rsh rthr]. split; [exact Ho'|]. split; [exact Hk'|]. split; [|split; assumption].
           rewrite nth_upd_other; [exact Hr|]. intros <-. contradiction.
      * intros u Hu Hnu Hnr'. rewrite nth_upd_other by (intros <-; apply Hnr'; left; reflexivity).
        apply Hidle; [exact Hu|exact Hnu|]. intros Hin. apply Hnr'. right. exact Hin.
    + (* a writer takes the free lock *)
      destruct rs as [|x rs]; [|split; [exact Hlen|exists sigma; rewrite El; auto]].
      destruct Hlock as (Hsh & _ & _ & Hidle).
      split; [cbn [rthr]; rewrite upd_length; exact Hlen|]. exists sigma. split; [exact Nd|]. cbn [rlock rthr rsh]. split; [|split; [exact Hns|split]].
      * intros u Hu. destruct (Hdone u Hu) as (r & Hr & Hin). exists r. split; [|exact Hin].
        rewrite nth_upd_other; [exact Hr|]. intros <-. contradiction.
      * exists o, (w_crit o), (w_init o), []. cbn [rsh rthr]. split; [exact Eo|]. split; [exact Ek|].
        split; [apply nth_upd_same; exact Htl|]. split; [reflexivity|]. cbn [micro fold_left]. rewrite Hsh. reflexivity.
      * intros u Hu Hnu Hne. rewrite nth_upd_other by congruence. apply Hidle; [exact Hu|exact Hnu|intros []].
  - (* running: t is inside its critical section *)
    assert (Htl : t < length (rthr c)) by (eapply nth_error_lt; eassumption).
    assert (Hto : t < length ops) by (eapply nth_error_lt; eassumption).
    assert (Hns : ~ In t sigma).
    { intros Hin. destruct (Hdone t Hin) as (r & Hr & _). congruence. }
    destruct (rlock c) as [rs|h] eqn:El.
    + (* the readers hold the lock: t is one of them *)
      destruct Hlock as (Hsh & Ndr & Hrs & Hidle).
      assert (Hin : In t rs).
      { destruct (in_dec Nat.eq_dec t rs) as [H|H]; [exact H|]. rewrite (Hidle t Hto Hns H) in Et. discriminate. }
      destruct (Hrs t Hin) as (_ & o' & rest' & l' & pre & Eo' & Ek & Et' & Ecrit & Erun).
      assert (o' = o) by congruence. subst o'. assert (rest' = rest /\ l' = l) as [-> ->] by (split; congruence).
      destruct rest as [|f rest].
      * (* the reader leaves: it joins sigma, at this point of the serial order *)
        rewrite app_nil_r in Ecrit.
        assert (Es : rserial (sigma ++ [t]) s0 = (rsh c, snd (rserial sigma s0) ++ [(t, w_res o l)])).
        { rewrite (rserial_snoc sigma t o s0 Eo). destruct (rserial sigma s0) as [ss rr]. cbn [fst snd] in *. subst ss.
          unfold rastep. rewrite Ecrit, <- Erun. reflexivity. }
        split; [cbn [rthr]; rewrite upd_length; exact Hlen|]. exists (sigma ++ [t]).
        split; [apply NoDup_app_single_nat; assumption|]. cbn [rlock rthr rsh]. rewrite Es. cbn [fst snd].
        split; [|split; [reflexivity|split; [apply drop_NoDup; exact Ndr|split]]].
        -- intros u Hu. apply in_app_or in Hu. destruct Hu as [Hu|[<-|[]]].
           ++ destruct (Hdone u Hu) as (r & Hr & Hi). exists r. split; [|apply in_or_app; left; exact Hi].
              rewrite nth_upd_other; [exact Hr|]. intros <-. contradiction.
           ++ exists (w_res o l). split; [apply nth_upd_same; exact Htl|apply in_or_app; right; left; reflexivity].
        -- intros u Hu. apply drop_In in Hu. destruct Hu as [Hu Hne].
           destruct (Hrs u Hu) as (Hnu & o' & rest' & l' & pre' & Ho' & Hk' & Hr & Hc & Hm). split.
           ++ intros H. apply in_app_or in H. destruct H as [H|[H|[]]]; [contradiction|congruence].
           ++ exists o', rest', l', pre'. cbn [rsh rthr]. split; [exact Ho'|]. split; [exact Hk'|]. split; [|split; assumption].
              rewrite nth_upd_other by congruence. exact Hr.
        -- intros u Hu Hnu Hnd. assert (u <> t) by (intros ->; apply Hnu; apply in_or_app; right; left; reflexivity).
           rewrite nth_upd_other by congruence. apply Hidle; [exact Hu| |].
           ++ intros H'. apply Hnu. apply in_or_app. left. exact H'.
           ++ intros H'. apply Hnd. apply drop_In. split; assumption.
      * (* one micro-step of a reader: the shared state stays as it is *)
        destruct (f (rsh c, l)) as [s' l2] eqn:Ef.
        assert (Hs' : s' = rsh c).
        { rewrite <- (read_only t o Eo Ek f) with (s := rsh c) (l := l); [rewrite Ef; reflexivity|].
          rewrite Ecrit. apply in_or_app. right. left. reflexivity. }
        subst s'.
        split; [cbn [rthr]; rewrite upd_length; exact Hlen|]. exists sigma. split; [exact Nd|]. cbn [rlock rthr rsh]. try rewrite El.
        split; [|split; [exact Hsh|split; [exact Ndr|split]]].
        -- intros u Hu. destruct (Hdone u Hu) as (r & Hr & Hi). exists r. split; [|exact Hi].
           rewrite nth_upd_other; [exact Hr|]. intros <-. contradiction.
        -- intros u Hu. destruct (Nat.eq_dec u t) as [->|Hne].
           ++ split; [exact Hns|]. exists o, rest, l2, (pre ++ [f]). cbn [rsh rthr]. split; [exact Eo|]. split; [exact Ek|].
              split; [apply nth_upd_same; exact Htl|]. split; [rewrite <- app_assoc; exact Ecrit|].
              unfold micro in *. rewrite fold_left_app, <- Erun. cbn [fold_left]. symmetry. exact Ef.
           ++ destruct (Hrs u Hu) as (Hnu & o' & rest' & l' & pre' & Ho' & Hk' & Hr & Hc & Hm). split; [exact Hnu|].
              exists o', rest', l', pre'. cbn [rsh rthr]. split; [exact Ho'|]. split; [exact Hk'|]. split; [|split; assumption].
              rewrite nth_upd_other by congruence. exact Hr.
        -- intros u Hu Hnu Hnr. rewrite nth_upd_other by (intros <-; contradiction). apply Hidle; assumption.
    + (* a writer holds the lock: it is t *)
      destruct Hlock as (Hnh & (o' & rest' & l' & pre & Eo' & Ek & Et' & Ecrit & Erun) & Hidle).
      assert (h = t).
      { destruct (Nat.eq_dec h t) as [E|Hne]; [exact E|]. rewrite (Hidle t Hto Hns (fun E => Hne (eq_sym E))) in Et. discriminate. }
      subst h. assert (o' = o) by congruence. subst o'. assert (rest' = rest /\ l' = l) as [-> ->] by (split; congruence).
      destruct rest as [|f rest].
      * (* the writer leaves *)
        rewrite app_nil_r in Ecrit.
        assert (Es : rserial (sigma ++ [t]) s0 = (rsh c, snd (rserial sigma s0) ++ [(t, w_res o l)])).
        { rewrite (rserial_snoc sigma t o s0 Eo). destruct (rserial sigma s0) as [ss rr]. cbn [fst snd] in *.
          unfold rastep. rewrite Ecrit, <- Erun. reflexivity. }
        split; [cbn [rthr]; rewrite upd_length; exact Hlen|]. exists (sigma ++ [t]).
        split; [apply NoDup_app_single_nat; assumption|]. cbn [rlock rthr rsh]. rewrite Es. cbn [fst snd].
        split; [|split; [reflexivity|split; [constructor|split; [intros u []|]]]].
        -- intros u Hu. apply in_app_or in Hu. destruct Hu as [Hu|[<-|[]]].
           ++ destruct (Hdone u Hu) as (r & Hr & Hi). exists r. split; [|apply in_or_app; left; exact Hi].
              rewrite nth_upd_other; [exact Hr|]. intros <-. contradiction.
           ++ exists (w_res o l). split; [apply nth_upd_same; exact Htl|apply in_or_app; right; left; reflexivity].
        -- intros u Hu Hnu _. assert (u <> t) by (intros ->; apply Hnu; apply in_or_app; right; left; reflexivity).
           rewrite nth_upd_other by congruence. apply Hidle; [exact Hu| |exact H].
           intros H'. apply Hnu. apply in_or_app. left. exact H'.
      * (* one micro-step of the writer *)
        destruct (f (rsh c, l)) as [s' l2] eqn:Ef.
        split; [cbn [rthr]; rewrite upd_length; exact Hlen|]. exists sigma. split; [exact Nd|]. cbn [rlock rthr rsh]. try rewrite El.
        split; [|split; [exact Hnh|split]].
        -- intros u Hu. destruct (Hdone u Hu) as (r & Hr & Hi). exists r. split; [|exact Hi].
           rewrite nth_upd_other; [exact Hr|]. intros <-. contradiction.
        -- exists o, rest, l2, (pre ++ [f]). cbn [rsh rthr]. split; [exact Eo|]. split; [exact Ek|].
           split; [apply nth_upd_same; exact Htl|]. split; [rewrite <- app_assoc; exact Ecrit|].
           unfold micro in *. rewrite fold_left_app, <- Erun. cbn [fold_left]. symmetry. exact Ef.
        -- intros u Hu Hnu Hne. rewrite nth_upd_other by congruence. apply Hidle; assumption.
Qed.

Lemma rinv_run sched : RInv (rrun sched).
Proof.
  unfold rrun. assert (H : forall c, RInv c -> RInv (fold_left rstep sched c)).
  { induction sched as [|t sched IH]; intros c Hc; [exact Hc|]. cbn [fold_left]. apply IH. apply rinv_step. exact Hc. }
  apply H. apply rinv_init.
Qed.

Definition rall_done (c : rcfg) : Prop := forall t, t < length ops -> exists r, nth_error (rthr c) t = Some (RDone r).

(* Every schedule that runs all threads to completion - readers overlapping one another in any way -
   leaves the shared state, and gives every thread the result, of running the critical sections
   one at a time in some order sigma; nobody holds the lock at the end. *)
Theorem rw_serialisable sched : rall_done (rrun sched) ->
  exists sigma, Permutation sigma (seq 0 (length ops)) /\
    rsh (rrun sched) = fst (rserial sigma s0) /\
    rlock (rrun sched) = LR [] /\
    forall t r, nth_error (rthr (rrun sched)) t = Some (RDone r) -> In (t, r) (snd (rserial sigma s0)).
Proof.
  intros Hd. destruct (rinv_run sched) as (Hlen & sigma & Nd & Hdone & Hlock). exists sigma.
  assert (Hall : forall t, t < length ops -> In t sigma).
  { intros t Ht. destruct (in_dec Nat.eq_dec t sigma) as [Hin|Hnin]; [exact Hin|]. exfalso.
    destruct (Hd t Ht) as (r & Hr). destruct (rlock (rrun sched)) as [rs|h] eqn:El.
    - destruct Hlock as (_ & _ & Hrs & Hidle). destruct (in_dec Nat.eq_dec t rs) as [Hi|Hni].
      + destruct (Hrs t Hi) as (_ & o & rest & l & pre & _ & _ & Hrun & _). congruence.
      + rewrite (Hidle t Ht Hnin Hni) in Hr. discriminate.
    - destruct Hlock as (_ & (o & rest & l & pre & _ & _ & Hrun & _) & Hidle).
      destruct (Nat.eq_dec t h) as [->|Hne]; [congruence|]. rewrite (Hidle t Ht Hnin Hne) in Hr. discriminate. }
  assert (Hsub : forall t, In t sigma -> t < length ops).
  { intros t Hin. destruct (Hdone t Hin) as (r & Hr & _). rewrite <- Hlen. eapply nth_error_lt. exact Hr. }
  assert (Hfree : rlock (rrun sched) = LR []).
  { destruct (rlock (rrun sched)) as [rs|h] eqn:El.
    - destruct rs as [|x rs]; [reflexivity|]. exfalso. destruct Hlock as (_ & _ & Hrs & _).
      destruct (Hrs x (or_introl eq_refl)) as (Hnx & o & rest & l & pre & Ho & _). apply Hnx. apply Hall. eapply nth_error_lt. exact Ho.
    - exfalso. destruct Hlock as (Hnh & (o & rest & l & pre & Ho & _) & _). apply Hnh. apply Hall. eapply nth_error_lt. exact Ho. }
  split.
  - apply NoDup_Permutation; [exact Nd|apply seq_NoDup|]. intros t. rewrite in_seq. split; [intros H; split; [lia|apply Hsub; exact H]|intros [_ H]; apply Hall; exact H].
  - rewrite Hfree in Hlock. destruct Hlock as (Hsh & _). split; [exact Hsh|]. split; [exact Hfree|].
    intros t r Hr. assert (Ht : t < length ops) by (rewrite <- Hlen; eapply nth_error_lt; exact Hr).
    destruct (Hdone t (Hall t Ht)) as (r' & Hr' & Hin). assert (r' = r) by congruence. subst r'. exact Hin.
Qed.

(* mutual exclusion as it matters: while a writer is inside its section nobody else is, and while
   readers are inside theirs the shared state is the one every one of them started from *)
Theorem rw_exclusion sched :
  match rlock (rrun sched) with
  | LW h => forall t rest l, nth_error (rthr (rrun sched)) t = Some (RRunning rest l) -> t = h
  | LR rs => forall t rest l, nth_error (rthr (rrun sched)) t = Some (RRunning rest l) ->
             In t rs /\ exists o, nth_error ops t = Some o /\ w_kind o = Reader
  end.
Proof.
  destruct (rinv_run sched) as (Hlen & sigma & Nd & Hdone & Hlock).
  destruct (rlock (rrun sched)) as [rs|h].
  - destruct Hlock as (_ & _ & Hrs & Hidle). intros t rest l Ht.
    assert (Hto : t < length ops) by (rewrite <- Hlen; eapply nth_error_lt; exact Ht).
    assert (Hns : ~ In t sigma) by (intros Hin; destruct (Hdone t Hin) as (r & Hr & _); congruence).
    destruct (in_dec Nat.eq_dec t rs) as [Hi|Hni]; [|rewrite (Hidle t Hto Hns Hni) in Ht; discriminate].
    split; [exact Hi|]. destruct (Hrs t Hi) as (_ & o & _ & _ & _ & Ho & Hk & _). exists o. split; assumption.
  - destruct Hlock as (_ & _ & Hidle). intros t rest l Ht.
    assert (Hto : t < length ops) by (rewrite <- Hlen; eapply nth_error_lt; exact Ht).
    assert (Hns : ~ In t sigma) by (intros Hin; destruct (Hdone t Hin) as (r & Hr & _); congruence).
    destruct (Nat.eq_dec t h) as [E|Hne]; [exact E|]. rewrite (Hidle t Hto Hns Hne) in Ht. discriminate.
Qed.
End RW.
