(* RangeProofs.v — invariants of the range plugin model: C02 and C03 *)
From Verif Require Import Base BaseProofs Net NetProofs Bitset IdxAlloc BitsetProofs Ipcalc IpcalcRun Alloc AllocRun Alloc4Proofs Msg4 RangePlugin RangeRun.
From Coq Require Import Lia ZifyN ZifyNat ZifyBool.
Open Scope N_scope.

(* ---------- one Allocate call of a valid IPv4 allocator ---------- *)
Lemma allocate4_spec a hip : ainv4 a ->
  match allocate4 a hip with
  | (a', Ok ip) => exists x, ip = be_bytes 4 (a4_start a + x) /\ x < n4 a /\ ~ In x (bits (a4_bm a)) /\
                   bits (a4_bm a') = x :: bits (a4_bm a) /\ ainv4 a' /\
                   a4_start a' = a4_start a /\ a4_end a' = a4_end a /\
                   (~ In (hint_idx4 a hip) (bits (a4_bm a)) -> x = hint_idx4 a hip)
  | (a', Err e) => e = ENoAddr /\ a' = a /\ N.of_nat (length (bits (a4_bm a))) = n4 a
  | (a', Panic) => False
  end.
Proof.
  intros Ha. pose proof (step4_refines a (OAlloc hip []) Ha) as R.
  pose proof (step4_inv a (OAlloc hip []) Ha) as I.
  pose proof (op_ok4 a (OAlloc hip []) Ha) as Hok.
  cbn [step4 abs_op4] in *.
  destruct (istep (a4_bm a) (IAlloc (Some (hint_idx4 a hip)))) as [b' r] eqn:E.
  destruct (istep_spec _ _ _ _ _ (proj2 (proj2 Ha)) Hok E) as (_ & Hr & _).
  destruct (allocate4 a hip) as [a' o]. cbn [fst snd] in *.
  assert (Ea : a' = with_bm4 a b') by congruence. subst a'.
  destruct r as [x| |x|k]; cbn [conc_out4] in R.
  - destruct o as [ip|e|]; try (exfalso; congruence).
    assert (ip = be_bytes 4 (a4_start a + x)) by congruence. subst ip.
    destruct Hr as (H1 & H2 & H3 & H4). exists x.
    split; [reflexivity|]. split; [exact H1|]. split; [exact H2|]. split; [exact H3|].
    split; [exact I|]. split; [reflexivity|]. split; [reflexivity|].
    intros Hf. apply H4; [reflexivity|exact Hf].
  - destruct o as [ip|e|]; try (exfalso; congruence).
    destruct Hr as (-> & Hf). split; [congruence|]. split; [apply with_bm4_id|exact Hf].
  - exfalso. destruct Hr as (Hr & _). discriminate.
  - exfalso. cbn [istep] in E. destruct (ipick _ _); discriminate.
Qed.

(* ---------- text of a hardware address ---------- *)
Lemma hex_roundtrip_all :
  forallb (fun b => match parse_part (hex2 b) with Some x => x =? b | None => false end) (nrange 256) = true.
Proof. vm_compute. reflexivity. Qed.

Lemma parse_hex2 b : b < 256 -> parse_part (hex2 b) = Some b.
Proof.
  intros Hb. pose proof hex_roundtrip_all as H. rewrite forallb_forall in H.
  specialize (H b (nrange_In 256 b Hb)). destruct (parse_part (hex2 b)); [|discriminate].
  apply N.eqb_eq in H. congruence.
Qed.

Lemma hex2_no_colon_all :
  forallb (fun b => negb (hexdigit (b / 16) =? 58) && negb (hexdigit (b mod 16) =? 58)) (nrange 256) = true.
Proof. vm_compute. reflexivity. Qed.

Lemma split_hex2 b s cur : b < 256 -> split_colon (hex2 b ++ s) cur = split_colon s (cur ++ hex2 b).
Proof.
  intros Hb. pose proof hex2_no_colon_all as H. rewrite forallb_forall in H.
  specialize (H b (nrange_In 256 b Hb)). apply andb_true_iff in H. destruct H as [H1 H2].
  apply negb_true_iff in H1, H2. unfold hex2. cbn [app split_colon]. rewrite H1, H2.
  rewrite <- app_assoc. reflexivity.
Qed.

Lemma split_mac hw cur : wf_bytes hw -> hw <> [] ->
  split_colon (mac_string hw) cur =
  match hw with b :: hw' => (cur ++ hex2 b) :: map hex2 hw' | [] => [] end.
Proof.
  revert cur. induction hw as [|b hw IH]; intros cur W Hne; [congruence|].
  pose proof (Forall_inv W) as Hb. pose proof (Forall_inv_tail W) as W'.
  destruct hw as [|b' hw'].
  - cbn [mac_string map]. rewrite <- (app_nil_r (hex2 b)) at 1. rewrite split_hex2 by exact Hb. reflexivity.
  - change (mac_string (b :: b' :: hw')) with (hex2 b ++ 58 :: mac_string (b' :: hw')).
    rewrite split_hex2 by exact Hb. cbn [split_colon]. rewrite N.eqb_refl.
    rewrite (IH [] W' ltac:(discriminate)). reflexivity.
Qed.

Lemma parse_parts_hex hw : wf_bytes hw -> parse_parts (map hex2 hw) = Some hw.
Proof.
  induction hw as [|b hw IH]; intros W; [reflexivity|].
  cbn [map parse_parts]. rewrite parse_hex2 by exact (Forall_inv W). rewrite IH by exact (Forall_inv_tail W).
  reflexivity.
Qed.

Lemma mac_string_length hw : length (mac_string hw) = (3 * length hw - 1)%nat.
Proof.
  induction hw as [|b hw IH]; [reflexivity|]. destruct hw as [|b' hw']; [reflexivity|].
  change (mac_string (b :: b' :: hw')) with (hex2 b ++ 58 :: mac_string (b' :: hw')).
  rewrite app_length. cbn [length hex2] in *. rewrite IH. lia.
Qed.

Lemma one_byte_roundtrip_all :
  forallb (fun b => match parse_hw (mac_affinity (mac_string [b])) with
                    | Some [x] => x =? b | _ => false end) (nrange 256) = true.
Proof. vm_compute. reflexivity. Qed.

(* what the database returns for the text the plugin wrote parses back to the address *)
Lemma mac_db_roundtrip hw : wf_bytes hw -> parse_hw (mac_affinity (mac_string hw)) = Some hw.
Proof.
  intros W. destruct hw as [|b [|b' hw']].
  - reflexivity.
  - pose proof one_byte_roundtrip_all as H. rewrite forallb_forall in H.
    specialize (H b (nrange_In 256 b (Forall_inv W))).
    destruct (parse_hw (mac_affinity (mac_string [b]))) as [[|x [|? ?]]|]; try discriminate.
    apply N.eqb_eq in H. congruence.
  - assert (Hid : mac_affinity (mac_string (b :: b' :: hw')) = mac_string (b :: b' :: hw')).
    { pose proof (mac_string_length (b :: b' :: hw')) as L. cbn [length] in L.
      destruct (mac_string (b :: b' :: hw')) as [|c1 [|c2 [|c3 r]]]; cbn [length] in L; try lia. reflexivity. }
    rewrite Hid. unfold parse_hw.
    destruct (mac_string (b :: b' :: hw')) eqn:E.
    { pose proof (mac_string_length (b :: b' :: hw')) as L. rewrite E in L. cbn [length] in L. lia. }
    rewrite <- E. rewrite (split_mac _ [] W ltac:(discriminate)). cbn [app].
    change (hex2 b :: map hex2 (b' :: hw')) with (map hex2 (b :: b' :: hw')).
    apply parse_parts_hex. exact W.
Qed.

Lemma mac_string_inj c1 c2 : wf_bytes c1 -> wf_bytes c2 -> mac_string c1 = mac_string c2 -> c1 = c2.
Proof.
  intros W1 W2 H.
  assert (E : parse_hw (mac_affinity (mac_string c1)) = parse_hw (mac_affinity (mac_string c2))) by (rewrite H; reflexivity).
  rewrite !mac_db_roundtrip in E by assumption. congruence.
Qed.

(* ---------- association lists ---------- *)
Lemma recs_get_none k l : recs_get k l = None <-> ~ In k (map fst l).
Proof.
  induction l as [|[k' r'] l IH]; cbn [recs_get map fst In]; [tauto|].
  destruct (bytes_eqb k' k) eqn:E.
  - apply bytes_eqb_eq in E. subst. split; [discriminate|]. intros H. exfalso. apply H. left. reflexivity.
  - rewrite IH. split; intros H; [intros [H1|H1]; [subst; rewrite (proj2 (bytes_eqb_eq k k) eq_refl) in E; discriminate|auto]|tauto].
Qed.

Lemma recs_get_some k l r : recs_get k l = Some r -> In (k, r) l.
Proof.
  induction l as [|[k' r'] l IH]; cbn [recs_get In]; [discriminate|].
  destruct (bytes_eqb k' k) eqn:E.
  - apply bytes_eqb_eq in E. subst. intros H. injection H as <-. left. reflexivity.
  - intros H. right. apply IH. exact H.
Qed.

Lemma recs_set_new k r l : recs_get k l = None -> recs_set k r l = l ++ [(k, r)].
Proof.
  induction l as [|[k' r'] l IH]; cbn [recs_get recs_set app]; [reflexivity|].
  destruct (bytes_eqb k' k); [discriminate|]. intros H. rewrite IH by exact H. reflexivity.
Qed.

Lemma recs_set_upd {T} (g : bytes * rec -> T) k r r0 l :
  recs_get k l = Some r0 -> g (k, r) = g (k, r0) -> map g (recs_set k r l) = map g l.
Proof.
  induction l as [|[k' r'] l IH]; cbn [recs_get recs_set map]; [discriminate|].
  destruct (bytes_eqb k' k) eqn:E.
  - apply bytes_eqb_eq in E. subst. intros H Hg. injection H as <-. cbn [map]. rewrite Hg. reflexivity.
  - intros H Hg. cbn [map]. rewrite IH by assumption. reflexivity.
Qed.

Lemma recs_set_keys k r r0 l : recs_get k l = Some r0 -> map fst (recs_set k r l) = map fst l.
Proof. intros H. apply (recs_set_upd fst k r r0 l H). reflexivity. Qed.

Lemma recs_set_Forall (Pr : bytes * rec -> Prop) k r l : Forall Pr l -> Pr (k, r) -> Forall Pr (recs_set k r l).
Proof.
  intros Hl Hr. induction l as [|[k' r'] l IH]; cbn [recs_set].
  - constructor; [exact Hr|constructor].
  - destruct (bytes_eqb k' k).
    + constructor; [exact Hr|exact (Forall_inv_tail Hl)].
    + constructor; [exact (Forall_inv Hl)|apply IH; exact (Forall_inv_tail Hl)].
Qed.

Definition rowkey (r : row) : bytes * bytes := (r_mac r, r_ip r).

Lemma db_upsert_new t r : ~ In (rowkey r) (map rowkey t) -> db_upsert t r = t ++ [r].
Proof.
  induction t as [|x t IH]; cbn [db_upsert map In app]; [reflexivity|]. intros H.
  destruct (bytes_eqb (r_mac x) (r_mac r) && bytes_eqb (r_ip x) (r_ip r)) eqn:E.
  - exfalso. apply H. left. apply andb_true_iff in E. destruct E as [E1 E2].
    apply bytes_eqb_eq in E1, E2. unfold rowkey. congruence.
  - rewrite IH; [reflexivity|]. intros H'. apply H. right. exact H'.
Qed.

Lemma db_upsert_upd t r : In (rowkey r) (map rowkey t) -> map rowkey (db_upsert t r) = map rowkey t.
Proof.
  induction t as [|x t IH]; cbn [db_upsert map In]; [tauto|]. intros H.
  destruct (bytes_eqb (r_mac x) (r_mac r) && bytes_eqb (r_ip x) (r_ip r)) eqn:E.
  - cbn [map]. f_equal. apply andb_true_iff in E. destruct E as [E1 E2].
    apply bytes_eqb_eq in E1, E2. unfold rowkey. congruence.
  - cbn [map]. f_equal. apply IH. destruct H as [H|H]; [|exact H]. exfalso.
    unfold rowkey in H. injection H as H1 H2.
    rewrite H1, H2, !(proj2 (bytes_eqb_eq _ _) eq_refl) in E. discriminate.
Qed.

(* ---------- the invariant ---------- *)
Definition ip4_of (r : rec) : bytes := to4_or_nil (rc_ip r).
Definition bindings (s : rstate) : list (bytes * bytes) := map (fun kr => (fst kr, ip4_of (snd kr))) (rs_recs s).
Definition dbproj (kr : bytes * rec) : bytes * bytes := (mac_affinity (fst kr), ip4_of (snd kr)).
Definition is_key (kr : bytes * rec) : Prop := exists c, wf_bytes c /\ fst kr = mac_string c.
Definition ip_ok (kr : bytes * rec) : Prop := to4 (rc_ip (snd kr)) = Some (ip4_of (snd kr)).
(* the row the plugin keeps in leases4 for a record *)
Definition dbrow (kr : bytes * rec) : row :=
  {| r_mac := mac_affinity (fst kr); r_ip := ip4_of (snd kr); r_exp := rc_exp (snd kr); r_host := rc_host (snd kr) |}.

Record rinv (s : rstate) : Prop := {
  ri_alloc : ainv4 (rs_alloc s);
  ri_keys : Forall is_key (rs_recs s);
  ri_nodup : NoDup (map fst (rs_recs s));
  ri_db : rs_db s = map dbrow (rs_recs s);
  ri_ipok : Forall ip_ok (rs_recs s);
  ri_idx : exists idxs, map (fun kr => ip4_of (snd kr)) (rs_recs s) =
                        map (fun i => be_bytes 4 (a4_start (rs_alloc s) + i)) idxs /\
           NoDup idxs /\ (forall i, In i idxs <-> In i (bits (a4_bm (rs_alloc s)))) }.

Lemma dbkey_inj k1 k2 : is_key (k1, {| rc_ip := []; rc_exp := 0; rc_host := [] |}) ->
  is_key (k2, {| rc_ip := []; rc_exp := 0; rc_host := [] |}) ->
  mac_affinity k1 = mac_affinity k2 -> k1 = k2.
Proof.
  intros (c1 & W1 & E1) (c2 & W2 & E2) H. cbn [fst] in *. subst.
  assert (E : parse_hw (mac_affinity (mac_string c1)) = parse_hw (mac_affinity (mac_string c2))) by (rewrite H; reflexivity).
  rewrite !mac_db_roundtrip in E by assumption. congruence.
Qed.

Lemma is_key_irrel k r r' : is_key (k, r) -> is_key (k, r').
Proof. intros (c & W & E). exists c. split; assumption. Qed.

Lemma rowkey_dbrow l : map rowkey (map dbrow l) = map dbproj l.
Proof. rewrite map_map. reflexivity. Qed.

Lemma db_upsert_map_new l k r rw : Forall is_key l -> is_key (k, r) -> ~ In k (map fst l) ->
  rw = dbrow (k, r) -> db_upsert (map dbrow l) rw = map dbrow (l ++ [(k, r)]).
Proof.
  intros Hk K Hnk ->. rewrite map_app. cbn [map]. apply db_upsert_new.
  rewrite rowkey_dbrow. intros Hc. apply in_map_iff in Hc. destruct Hc as ([k' r'] & Ek & Hkin).
  unfold dbproj, rowkey, dbrow in Ek. cbn [fst snd r_mac r_ip] in Ek. injection Ek as Ek _.
  rewrite Forall_forall in Hk. pose proof (Hk _ Hkin) as K1.
  assert (k' = k) by (apply dbkey_inj; [exact (is_key_irrel _ _ _ K1)|exact (is_key_irrel _ _ _ K)|exact Ek]).
  subst k'. apply Hnk. apply in_map_iff. exists (k, r'). split; [reflexivity|exact Hkin].
Qed.

Lemma db_upsert_map_upd l k r r0 rw : Forall is_key l -> is_key (k, r) ->
  recs_get k l = Some r0 -> ip4_of r = ip4_of r0 -> rw = dbrow (k, r) ->
  db_upsert (map dbrow l) rw = map dbrow (recs_set k r l).
Proof.
  intros Hk K G Hip ->. induction l as [|[k' r'] l IH]; cbn [recs_get] in G; [discriminate|].
  cbn [map db_upsert recs_set]. destruct (bytes_eqb k' k) eqn:E.
  - apply bytes_eqb_eq in E. subst k'. injection G as ->.
    assert (E1 : bytes_eqb (r_mac (dbrow (k, r0))) (r_mac (dbrow (k, r))) = true) by (apply bytes_eqb_eq; reflexivity).
    assert (E2 : bytes_eqb (r_ip (dbrow (k, r0))) (r_ip (dbrow (k, r))) = true).
    { apply bytes_eqb_eq. unfold dbrow. cbn [r_ip snd]. symmetry. exact Hip. }
    rewrite E1, E2. reflexivity.
  - assert (Hne : bytes_eqb (r_mac (dbrow (k', r'))) (r_mac (dbrow (k, r))) = false).
    { destruct (bytes_eqb (r_mac (dbrow (k', r'))) (r_mac (dbrow (k, r)))) eqn:E2; [|reflexivity]. exfalso.
      apply bytes_eqb_eq in E2. unfold dbrow in E2. cbn [r_mac fst] in E2.
      assert (k' = k) by (apply dbkey_inj; [exact (is_key_irrel _ _ _ (Forall_inv Hk))|exact (is_key_irrel _ _ _ K)|exact E2]).
      subst k'. rewrite (proj2 (bytes_eqb_eq _ _) eq_refl) in E. discriminate. }
    rewrite Hne. cbn [andb map]. f_equal. apply IH; [exact (Forall_inv_tail Hk)|exact G].
Qed.

Lemma be_bytes4_to4 x : to4 (be_bytes 4 x) = Some (be_bytes 4 x).
Proof. unfold to4, lenb. rewrite be_bytes_length. reflexivity. Qed.

Lemma to4_or_nil_be4 x : to4_or_nil (be_bytes 4 x) = be_bytes 4 x.
Proof. unfold to4_or_nil. rewrite be_bytes4_to4. reflexivity. Qed.

Lemma NoDup_same_length (l1 l2 : list N) : NoDup l1 -> NoDup l2 -> (forall i, In i l1 <-> In i l2) -> length l1 = length l2.
Proof.
  intros N1 N2 H. apply Nat.le_antisymm; apply NoDup_incl_length; auto; intros x Hx; apply H; exact Hx.
Qed.

Lemma rinv_count s : rinv s -> length (rs_recs s) = length (bits (a4_bm (rs_alloc s))).
Proof.
  intros [Ha _ _ _ _ (idxs & E & Nd & Hi)].
  assert (L : length (rs_recs s) = length idxs).
  { rewrite <- (map_length (fun kr => ip4_of (snd kr))), E, map_length. reflexivity. }
  rewrite L. apply NoDup_same_length; [exact Nd|exact (proj1 (proj2 (proj2 (proj2 Ha))))|exact Hi].
Qed.

Lemma bindings_in_range s k ip : rinv s -> In (k, ip) (bindings s) ->
  exists i, ip = be_bytes 4 (a4_start (rs_alloc s) + i) /\ i < n4 (rs_alloc s) /\
            a4_start (rs_alloc s) <= be_val ip <= a4_end (rs_alloc s).
Proof.
  intros [Ha _ _ _ _ (idxs & E & Nd & Hi)] H.
  assert (Hin : In ip (map (fun kr => ip4_of (snd kr)) (rs_recs s))).
  { unfold bindings in H. apply in_map_iff in H. destruct H as (kr & Ek & Hk). apply in_map_iff.
    exists kr. split; [congruence|exact Hk]. }
  rewrite E in Hin. apply in_map_iff in Hin. destruct Hin as (i & <- & Hii).
  apply Hi in Hii. destruct Ha as (H1 & H2 & Hb). apply (proj2 (proj2 Hb)) in Hii.
  exists i. split; [reflexivity|]. split; [exact Hii|].
  rewrite be_val_be_bytes. change (256 ^ N.of_nat 4) with W32. unfold n4 in Hii. rewrite N.mod_small by lia. lia.
Qed.

Definition same_static (s s' : rstate) : Prop :=
  rs_lease s' = rs_lease s /\ a4_start (rs_alloc s') = a4_start (rs_alloc s) /\ a4_end (rs_alloc s') = a4_end (rs_alloc s).


Lemma be_bytes4_inj_local x y : x < W32 -> y < W32 -> be_bytes 4 x = be_bytes 4 y -> x = y.
Proof.
  intros Hx Hy H. assert (E : be_val (be_bytes 4 x) = be_val (be_bytes 4 y)) by (rewrite H; reflexivity).
  rewrite !be_val_be_bytes in E. change (256 ^ N.of_nat 4) with W32 in E.
  rewrite !N.mod_small in E by assumption. exact E.
Qed.

Lemma NoDup_app_single {A} (l : list A) x : NoDup l -> ~ In x l -> NoDup (l ++ [x]).
Proof.
  intros Hn Hx. induction l as [|y l IH]; cbn [app]; [constructor; [intros []|constructor]|].
  inversion Hn as [|? ? Hy Hl]; subst. constructor.
  - rewrite in_app_iff. intros [H|[H|[]]]; [contradiction|]. subst. apply Hx. left. reflexivity.
  - apply IH; [exact Hl|]. intros H. apply Hx. right. exact H.
Qed.

(* ---------- one request ---------- *)
Lemma handler_step s now c host resp : rinv s -> wf_bytes c ->
  let key := mac_string c in
  match range_handler s now (req_of c host) resp with
  | (s', Ok (Some m, stop)) =>
      stop = false /\ rinv s' /\ same_static s s' /\
      In (key, m_yiaddr m) (bindings s') /\
      opt_get 51 (m_opts m) = Some (lease_opt (rs_lease s)) /\
      ((recs_get key (rs_recs s) <> None /\ bindings s' = bindings s) \/
       (recs_get key (rs_recs s) = None /\ bindings s' = bindings s ++ [(key, m_yiaddr m)] /\
        ~ In (m_yiaddr m) (map snd (bindings s)))) /\
      (* the stored expiry covers the promised lease, to the second *)
      (exists r', recs_get key (rs_recs s') = Some r' /\ (now + rs_lease s - NS < rc_exp r' * NS)%Z)
  | (s', Ok (None, stop)) =>
      stop = true /\ s' = s /\ recs_get key (rs_recs s) = None /\
      N.of_nat (length (rs_recs s)) = n4 (rs_alloc s)
  | (_, Err _) | (_, Panic) => False
  end.
Proof.
  intros I W key. pose proof I as [Ha Hk Hn Hdb Hip (idxs & Eidx & Nd & Hi)].
  unfold range_handler. cbn [m_chaddr req_of]. fold key.
  set (hostname := match opt_get 12 (m_opts (req_of c host)) with Some h => h | None => [] end).
  destruct (recs_get key (rs_recs s)) as [rc|] eqn:G.
  - (* known client *)
    assert (Hin : In (key, rc) (rs_recs s)) by (apply recs_get_some; exact G).
    assert (Hb : In (key, ip4_of rc) (bindings s)).
    { unfold bindings. apply in_map_iff. exists (key, rc). split; [reflexivity|exact Hin]. }
    destruct (rc_exp rc * NS <? now + rs_lease s)%Z eqn:Ex.
    + set (rc' := {| rc_ip := rc_ip rc; rc_exp := round_s (now + rs_lease s); rc_host := hostname |}).
      assert (Eb : map (fun kr => (fst kr, ip4_of (snd kr))) (recs_set key rc' (rs_recs s)) = bindings s).
      { apply (recs_set_upd _ key rc' rc); [exact G|reflexivity]. }
      split; [reflexivity|]. split; [|split; [repeat split|split; [|split; [|split]]]].
      * constructor; cbn [rs_alloc rs_recs rs_db].
        -- exact Ha.
        -- apply recs_set_Forall; [exact Hk|]. rewrite Forall_forall in Hk. exact (is_key_irrel _ _ _ (Hk _ Hin)).
        -- rewrite (recs_set_keys key rc' rc _ G). exact Hn.
        -- rewrite Hdb. rewrite Forall_forall in Hk.
           apply (db_upsert_map_upd (rs_recs s) key rc' rc); [apply Forall_forall; exact Hk|exact (is_key_irrel _ _ _ (Hk _ Hin))|exact G|reflexivity|reflexivity].
        -- apply recs_set_Forall; [exact Hip|]. rewrite Forall_forall in Hip. exact (Hip _ Hin).
        -- exists idxs. rewrite (recs_set_upd (fun kr => ip4_of (snd kr)) key rc' rc _ G) by reflexivity.
           split; [exact Eidx|]. split; assumption.
      * cbn [m_yiaddr upd_opt set_opts set_yiaddr]. unfold bindings. cbn [rs_recs]. rewrite Eb. exact Hb.
      * cbn [m_opts upd_opt set_opts opt_update opt_get]. rewrite N.eqb_refl. reflexivity.
      * left. split; [congruence|]. unfold bindings at 1. cbn [rs_recs]. exact Eb.
      * exists rc'. split.
        -- cbn [rs_recs]. clear - G. induction (rs_recs s) as [|[k' r'] l IH]; cbn [recs_get recs_set] in *; [discriminate|].
           destruct (bytes_eqb k' key) eqn:E; cbn [recs_get].
           ++ rewrite (proj2 (bytes_eqb_eq key key) eq_refl). reflexivity.
           ++ rewrite E. apply IH. exact G.
        -- cbn [rc_exp rc']. unfold round_s, NS. lia.
    + split; [reflexivity|]. split; [exact I|]. split; [repeat split|]. split; [exact Hb|]. split.
      * cbn [m_opts upd_opt set_opts opt_update opt_get]. rewrite N.eqb_refl. reflexivity.
      * split; [left; split; [congruence|reflexivity]|].
        exists rc. split; [exact G|]. unfold NS in *. lia.
  - (* new client *)
    pose proof (allocate4_spec (rs_alloc s) [] Ha) as A.
    destruct (allocate4 (rs_alloc s) []) as [a' [ip|e|]].
    + destruct A as (x & -> & Hx & Hfree & Ebits & Ha' & Es & Ee & _).
      rewrite to4_or_nil_be4.
      set (rc := {| rc_ip := be_bytes 4 (a4_start (rs_alloc s) + x); rc_exp := trunc_s (now + rs_lease s); rc_host := hostname |}).
      assert (Hnk : ~ In key (map fst (rs_recs s))) by (apply recs_get_none; exact G).
      assert (Hnew : ~ In (be_bytes 4 (a4_start (rs_alloc s) + x)) (map snd (bindings s))).
      { intros Hc. unfold bindings in Hc. rewrite map_map in Hc. cbn [snd] in Hc.
        rewrite Eidx in Hc. apply in_map_iff in Hc. destruct Hc as (i & Ei & Hii).
        apply Hi in Hii as Hib. destruct Ha as (H1 & H2 & Hb). apply (proj2 (proj2 Hb)) in Hib.
        unfold n4 in *. assert (a4_start (rs_alloc s) + i = a4_start (rs_alloc s) + x).
        { apply be_bytes4_inj_local; try lia. exact Ei. }
        assert (i = x) by lia. subst i. apply Hfree. apply Hi. exact Hii. }
      rewrite (recs_set_new key rc _ G).
      split; [reflexivity|]. split; [|split; [repeat split; assumption|split; [|split; [|split]]]].
      * constructor; cbn [rs_alloc rs_recs rs_db].
        -- exact Ha'.
        -- apply Forall_app. split; [exact Hk|]. constructor; [|constructor]. exists c. split; [exact W|reflexivity].
        -- rewrite map_app. cbn [map fst]. apply NoDup_app_single; assumption.
        -- rewrite Hdb. apply db_upsert_map_new; [exact Hk|exists c; split; [exact W|reflexivity]|exact Hnk|].
           unfold dbrow, ip4_of. cbn [fst snd rc_ip rc_exp rc_host rc]. rewrite to4_or_nil_be4. reflexivity.
        -- apply Forall_app. split; [exact Hip|]. constructor; [|constructor].
           unfold ip_ok, ip4_of. cbn [snd rc_ip rc]. rewrite to4_or_nil_be4. apply be_bytes4_to4.
        -- exists (idxs ++ [x]). rewrite !map_app. cbn [map snd]. unfold ip4_of at 2. cbn [rc_ip rc].
           rewrite to4_or_nil_be4, Es, Eidx. split; [reflexivity|]. split.
           ++ apply NoDup_app_single; [exact Nd|]. intros Hc. apply Hfree. apply Hi. exact Hc.
           ++ intros i. rewrite Ebits, in_app_iff. cbn [In]. rewrite Hi. split; intros [H|H]; auto.
              destruct H as [H|[]]; auto.
      * cbn [m_yiaddr upd_opt set_opts set_yiaddr]. unfold bindings. cbn [rs_recs]. rewrite map_app. apply in_or_app. right.
        left. unfold ip4_of. cbn [fst snd rc_ip rc]. rewrite to4_or_nil_be4. reflexivity.
      * cbn [m_opts upd_opt set_opts opt_update opt_get]. rewrite N.eqb_refl. reflexivity.
      * right. split; [reflexivity|]. cbn [m_yiaddr upd_opt set_opts set_yiaddr]. split; [|exact Hnew].
        unfold bindings. cbn [rs_recs]. rewrite map_app. cbn [map fst snd]. unfold ip4_of at 2. cbn [rc_ip rc].
        rewrite to4_or_nil_be4. reflexivity.
      * exists rc. split.
        -- cbn [rs_recs]. clear - G. induction (rs_recs s) as [|[k' r'] l IH]; cbn [recs_get app] in *.
           ++ rewrite (proj2 (bytes_eqb_eq key key) eq_refl). reflexivity.
           ++ destruct (bytes_eqb k' key); [discriminate|]. apply IH. exact G.
        -- cbn [rc_exp rc]. unfold trunc_s, NS. lia.
    + destruct A as (-> & -> & Hfull).
      split; [reflexivity|]. split; [destruct s; reflexivity|]. split; [reflexivity|].
      rewrite (rinv_count s I). exact Hfull.
    + exact A.
Qed.

(* ====================== restart on the database the plugin wrote ====================== *)
From Coq Require Import Permutation.

(* a record after a store/load round trip *)
Definition norm (kr : bytes * rec) : bytes * rec :=
  (fst kr, {| rc_ip := v4in6_prefix ++ ip4_of (snd kr); rc_exp := rc_exp (snd kr); rc_host := rc_host (snd kr) |}).
Definition ip_len4 (kr : bytes * rec) : Prop := length (ip4_of (snd kr)) = 4%nat.

Lemma to4_mapped b4 : length b4 = 4%nat -> to4 (v4in6_prefix ++ b4) = Some b4.
Proof.
  intros L. destruct b4 as [|a [|b [|c [|d [|? ?]]]]]; try discriminate L.
  unfold to4, lenb. cbn [app length v4in6_prefix Nat.eqb andb firstn skipn]. reflexivity.
Qed.

Lemma ip4_of_norm kr : ip_len4 kr -> ip4_of (snd (norm kr)) = ip4_of (snd kr).
Proof. intros L. unfold norm, ip4_of at 1, to4_or_nil. cbn [snd rc_ip]. rewrite to4_mapped by exact L. reflexivity. Qed.

Lemma dbrow_norm kr : ip_len4 kr -> dbrow (norm kr) = dbrow kr.
Proof. intros L. unfold dbrow. rewrite ip4_of_norm by exact L. reflexivity. Qed.

Lemma load_records_spec l : forall acc, Forall is_key l -> Forall ip_len4 l -> NoDup (map fst l) ->
  (forall k, In k (map fst l) -> ~ In k (map fst acc)) ->
  load_records (map dbrow l) acc = Some (acc ++ map norm l).
Proof.
  induction l as [|[k r] l IH]; intros acc Hk Hl Nd Hd; cbn [map load_records]; [rewrite app_nil_r; reflexivity|].
  pose proof (Forall_inv Hk) as (c & W & Ek). cbn [fst] in Ek. subst k.
  cbn [r_mac r_ip r_exp r_host dbrow fst snd].
  rewrite mac_db_roundtrip by exact W.
  pose proof (Forall_inv Hl) as L4. unfold ip_len4 in L4. cbn [snd] in L4.
  unfold lenb. rewrite L4. cbn [Nat.eqb].
  rewrite recs_set_new.
  2:{ apply recs_get_none. apply Hd. left. reflexivity. }
  inversion Nd as [|? ? Hnin Nd']; subst.
  rewrite IH.
  - rewrite <- app_assoc. reflexivity.
  - exact (Forall_inv_tail Hk).
  - exact (Forall_inv_tail Hl).
  - exact Nd'.
  - intros k Hkin. rewrite map_app, in_app_iff. cbn [map fst In]. intros [H|[H|[]]].
    + apply (Hd k); [right; exact Hkin|exact H].
    + subst k. apply Hnin. exact Hkin.
Qed.

Lemma hint_idx4_mapped a i : ainv4 a -> i < n4 a ->
  hint_idx4 a (v4in6_prefix ++ be_bytes 4 (a4_start a + i)) = i.
Proof.
  intros (H1 & H2 & _) Hi. unfold n4 in Hi. unfold hint_idx4, to_offset4.
  rewrite to4_mapped by apply be_bytes_length.
  assert (E : be_u32_of (be_bytes 4 (a4_start a + i)) = a4_start a + i).
  { unfold be_u32_of. rewrite firstn_all2 by (rewrite be_bytes_length; lia).
    rewrite be_val_be_bytes. change (256 ^ N.of_nat 4) with W32. apply N.mod_small. lia. }
  rewrite E.
  destruct ((a4_start a + i <? a4_start a) || (a4_end a <? a4_start a + i)) eqn:C; [lia|].
  rewrite u32_sub_small by lia. lia.
Qed.

Lemma remark_spec l : forall a idxs, ainv4 a ->
  map (fun kr => rc_ip (snd kr)) l = map (fun i => v4in6_prefix ++ be_bytes 4 (a4_start a + i)) idxs ->
  NoDup idxs -> (forall i, In i idxs -> i < n4 a /\ ~ In i (bits (a4_bm a))) ->
  exists a', remark a l = Ok a' /\ ainv4 a' /\ a4_start a' = a4_start a /\ a4_end a' = a4_end a /\
             (forall i, In i (bits (a4_bm a')) <-> In i idxs \/ In i (bits (a4_bm a))).
Proof.
  induction l as [|[k r] l IH]; intros a idxs Ha E Nd Hi.
  - destruct idxs; [|cbn in E; discriminate E]. exists a. cbn [remark In].
    split; [reflexivity|]. split; [exact Ha|]. split; [reflexivity|]. split; [reflexivity|]. intros i; tauto.
  - destruct idxs as [|i idxs]; [cbn in E; discriminate E|]. cbn [map snd] in E.
    assert (Er : rc_ip r = v4in6_prefix ++ be_bytes 4 (a4_start a + i)) by congruence.
    assert (E' : map (fun kr => rc_ip (snd kr)) l = map (fun i => v4in6_prefix ++ be_bytes 4 (a4_start a + i)) idxs) by congruence.
    clear E. rename E' into E.
    cbn [remark snd]. rewrite Er.
    destruct (Hi i (or_introl eq_refl)) as [Hlt Hfree].
    pose proof (allocate4_spec a (v4in6_prefix ++ be_bytes 4 (a4_start a + i)) Ha) as A.
    rewrite hint_idx4_mapped in A by assumption.
    destruct (allocate4 a (v4in6_prefix ++ be_bytes 4 (a4_start a + i))) as [a1 [ip|e|]].
    + destruct A as (x & -> & Hx & Hxf & Eb & Ha1 & Es & Ee & Hh).
      specialize (Hh Hfree). subst x.
      unfold to4_or_nil. rewrite to4_mapped by apply be_bytes_length.
      rewrite (proj2 (bytes_eqb_eq _ _) eq_refl).
      inversion Nd as [|? ? Hnin Nd']; subst.
      destruct (IH a1 idxs Ha1) as (a' & R & Ha' & Es' & Ee' & Hb').
      * rewrite Es. exact E.
      * exact Nd'.
      * intros j Hj. destruct (Hi j (or_intror Hj)) as [Hjl Hjf]. unfold n4 in *. rewrite Es, Ee. split; [exact Hjl|].
        rewrite Eb. intros [Hc|Hc]; [subst j; contradiction|contradiction].
      * exists a'. split; [exact R|]. split; [exact Ha'|]. split; [congruence|]. split; [congruence|].
        intros j. rewrite Hb', Eb. cbn [In]. split; intros H; intuition.
    + exfalso. destruct A as (_ & _ & Hfull). destruct Ha as (_ & _ & Hb).
      exact (Hfree (proj2 (full_iff_count _ _ Hb) Hfull i Hlt)).
    + contradiction.
Qed.

Lemma remark_bits_subset l : forall a a', remark a l = Ok a' -> True.
Proof. trivial. Qed.

(* the static configuration a state was set up with *)
Definition cfg_ok (s e : bytes) (st : rstate) : Prop :=
  exists s4 e4 a0, to4 s = Some s4 /\ to4 e = Some e4 /\ (be_u32_of e4 <=? be_u32_of s4) = false /\
    new4 s e = Ok a0 /\ ainv4 a0 /\ bits (a4_bm a0) = [] /\
    a4_start (rs_alloc st) = a4_start a0 /\ a4_end (rs_alloc st) = a4_end a0.

Lemma rinv_ip_len4 st : rinv st -> Forall ip_len4 (rs_recs st).
Proof.
  intros [_ _ _ _ Hip _]. eapply Forall_impl; [|exact Hip]. intros kr H. unfold ip_ok in H.
  unfold ip_len4. exact (to4_length _ _ H).
Qed.

(* Restarting on the database written so far succeeds and restores exactly the bindings,
   for every order in which the stored leases are re-marked. *)
Lemma restart_ok ord s e lease st : (forall l, Permutation l (ord l)) ->
  rinv st -> cfg_ok s e st ->
  exists st', range_setup_ord ord s e lease (rs_db st) = Ok st' /\ rinv st' /\ cfg_ok s e st' /\
              rs_lease st' = lease /\ rs_db st' = rs_db st /\
              rs_recs st' = map norm (rs_recs st) /\ bindings st' = bindings st.
Proof.
  intros Hord I (s4 & e4 & a0 & Es & Ee & Hlt & Hnew & Ha0 & Hb0 & Hs0 & He0).
  pose proof I as [Ha Hk Hn Hdb Hip (idxs & Eidx & Nd & Hi)].
  pose proof (rinv_ip_len4 st I) as Hl4.
  unfold range_setup_ord. rewrite Es, Ee, Hlt, Hnew, Hdb.
  rewrite (load_records_spec (rs_recs st) []); [|exact Hk|exact Hl4|exact Hn|intros k _ []].
  cbn [app].
  (* the re-marking loop over a permutation of the loaded records *)
  set (recs' := map norm (rs_recs st)).
  pose proof (Hord recs') as P.
  assert (Eips : map (fun kr => rc_ip (snd kr)) recs' =
                 map (fun i => v4in6_prefix ++ be_bytes 4 (a4_start a0 + i)) idxs).
  { unfold recs'. rewrite map_map. cbn [norm snd rc_ip]. rewrite <- Hs0.
    rewrite <- (map_map (fun i => be_bytes 4 (a4_start (rs_alloc st) + i)) (fun b => v4in6_prefix ++ b)).
    rewrite <- Eidx, map_map. reflexivity. }
  (* transport the index list along the permutation *)
  assert (Pm : Permutation (map (fun kr => rc_ip (snd kr)) recs') (map (fun kr => rc_ip (snd kr)) (ord recs')))
    by (apply Permutation_map; exact P).
  rewrite Eips in Pm.
  destruct (Permutation_map_inv _ _ (Permutation_sym Pm)) as (idxs' & Eips' & Pi).
  assert (Nd' : NoDup idxs') by (eapply Permutation_NoDup; [exact Pi|exact Nd]).
  assert (Hbnd : forall i, In i idxs' -> i < n4 a0 /\ ~ In i (bits (a4_bm a0))).
  { intros i Hi'. split; [|rewrite Hb0; intros []].
    assert (In i idxs) by (eapply Permutation_in; [apply Permutation_sym; exact Pi|exact Hi']).
    apply Hi in H. destruct Ha as (_ & _ & _ & _ & Hb). apply Hb in H. unfold n4 in *. rewrite <- Hs0, <- He0. exact H. }
  destruct (remark_spec (ord recs') a0 idxs' Ha0 Eips' Nd' Hbnd) as (a' & R & Ha' & Es' & Ee' & Hb').
  rewrite R. eexists. split; [reflexivity|].
  assert (Eb : bindings {| rs_alloc := a'; rs_lease := lease; rs_recs := recs'; rs_db := map dbrow (rs_recs st) |} = bindings st).
  { unfold bindings, recs'. cbn [rs_recs]. rewrite map_map. apply map_ext_in. intros kr Hin.
    rewrite Forall_forall in Hl4. rewrite ip4_of_norm by (apply Hl4; exact Hin). reflexivity. }
  split; [|split; [|split; [reflexivity|split; [reflexivity|split; [reflexivity|exact Eb]]]]].
  - constructor; cbn [rs_alloc rs_recs rs_db].
    + exact Ha'.
    + unfold recs'. apply Forall_forall. intros kr Hin. apply in_map_iff in Hin. destruct Hin as (kr0 & <- & Hin0).
      rewrite Forall_forall in Hk. destruct (Hk _ Hin0) as (c & W & Ec). exists c. split; [exact W|exact Ec].
    + unfold recs'. rewrite map_map. cbn [norm fst]. exact Hn.
    + unfold recs'. rewrite map_map. apply map_ext_in. intros kr Hin. symmetry. apply dbrow_norm.
      rewrite Forall_forall in Hl4. apply Hl4. exact Hin.
    + unfold recs'. apply Forall_forall. intros kr Hin. apply in_map_iff in Hin. destruct Hin as (kr0 & <- & Hin0).
      rewrite Forall_forall in Hl4. pose proof (Hl4 _ Hin0) as L. unfold ip_ok. rewrite ip4_of_norm by exact L.
      unfold norm. cbn [snd rc_ip]. apply to4_mapped. exact L.
    + exists idxs. split; [|split; [exact Nd|]].
      * unfold recs'. rewrite map_map. rewrite Es', <- Hs0, <- Eidx. apply map_ext_in. intros kr Hin.
        rewrite Forall_forall in Hl4. apply ip4_of_norm. apply Hl4. exact Hin.
      * intros i. rewrite Hb', Hb0. cbn [In]. split; [intros H; left; eapply Permutation_in; [exact Pi|exact H]|].
        intros [H|[]]. eapply Permutation_in; [apply Permutation_sym; exact Pi|exact H].
  - exists s4, e4, a0. cbn [rs_alloc].
    split; [exact Es|]. split; [exact Ee|]. split; [exact Hlt|]. split; [exact Hnew|]. split; [exact Ha0|].
    split; [exact Hb0|]. split; [exact Es'|exact Ee'].
Qed.
