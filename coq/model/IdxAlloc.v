(* IdxAlloc.v — the index-level allocator both bitmap allocators refine: the hint and
   the freed prefix are already resolved to block indices (None = not a block of the pool). *)
From Verif Require Import Base Bitset.
Open Scope N_scope.

Inductive iop := IAlloc (hint : option N) | IFree (target : option N).
Inductive iout := IAllocOk (idx : N) | IAllocFull | IFreeOk (idx : N) | IFreeErr (known : bool).
(* IFreeErr true: the prefix names a block of the pool that is not outstanding (double free);
   IFreeErr false: it names no block of the pool *)

Definition ipick (b : bitset) (h : option N) : option N :=
  match h with
  | Some i => if negb (bs_test b i) then Some i else bs_next_clear b
  | None => bs_next_clear b
  end.

Definition istep (b : bitset) (o : iop) : bitset * iout :=
  match o with
  | IAlloc h =>
      match ipick b h with
      | None => (b, IAllocFull)
      | Some n => (bs_set b n, IAllocOk n)
      end
  | IFree None => (b, IFreeErr false)
  | IFree (Some i) =>
      if negb (bs_test b i) then (b, IFreeErr true) else (bs_clear b i, IFreeOk i)
  end.

Fixpoint irun (b : bitset) (ops : list iop) : list iout :=
  match ops with
  | [] => []
  | o :: ops' => let '(b', r) := istep b o in r :: irun b' ops'
  end.

Fixpoint ifinal (b : bitset) (ops : list iop) : bitset :=
  match ops with
  | [] => b
  | o :: ops' => ifinal (fst (istep b o)) ops'
  end.
