(* Setup.v — the setup functions of the stateless plugins over their argument vectors.
   Text parsers of the standard library are oracles (a record of functions; theorems hold for
   every oracle, the executable check is given the answers of the real functions).  A setup in
   a fresh process: the package-level configuration starts empty. *)
From Verif Require Import Base Net Msg4 Msg6 Plugins4 Plugins6.
Open Scope N_scope.

Record url := { u_scheme : bytes; u_host : bytes; u_path : bytes; u_string : bytes; u_params : bytes }.

Record oracles := {
  o_parse_ip : bytes -> option bytes;                (* net.ParseIP: nil, or the address as Go returns it *)
  o_parse_cidr : bytes -> option (bytes * bytes);    (* net.ParseCIDR: the network's IP and mask *)
  o_parse_dur : bytes -> option Z;                   (* time.ParseDuration, nanoseconds *)
  o_atoi : bytes -> option Z;                        (* strconv.Atoi *)
  o_parse_mac : bytes -> option bytes;               (* net.ParseMAC *)
  o_url : bytes -> option url }.                     (* url.Parse and the accessors used *)

Inductive sres (A : Type) := SetOk (a : A) | SetErr.
Arguments SetOk {A} a.
Arguments SetErr {A}.

Section Setup.
Variable O : oracles.

(* for _, arg := range args { ip := net.ParseIP(arg); if ip.To4() == nil { error }; append } *)
Fixpoint ips_to4 (args : list bytes) : option (list bytes) :=
  match args with
  | [] => Some []
  | a :: args' =>
      match o_parse_ip O a with
      | Some ip => match to4 ip with
                   | Some _ => option_map (cons ip) (ips_to4 args')
                   | None => None
                   end
      | None => None
      end
  end.

Fixpoint ips_to16 (args : list bytes) : option (list bytes) :=
  match args with
  | [] => Some []
  | a :: args' =>
      match o_parse_ip O a with
      | Some ip => match to16 ip with
                   | Some _ => option_map (cons ip) (ips_to16 args')
                   | None => None
                   end
      | None => None
      end
  end.

(* netmask.checkValidNetmask: ones followed by zeros *)
Definition valid_netmask (m4 : bytes) : bool :=
  let v := be_val m4 in
  let x := 4294967295 - v in
  let y := (x + 1) mod 4294967296 in
  N.land y x =? 0.

Fixpoint split_comma (s : bytes) (cur : bytes) : list bytes :=
  match s with
  | [] => [cur]
  | c :: s' => if c =? 44 then cur :: split_comma s' [] else split_comma s' (cur ++ [c])
  end.

Fixpoint parse_routes (args : list bytes) : option (list route) :=
  match args with
  | [] => Some []
  | a :: args' =>
      match split_comma a [] with
      | [f0; f1] =>
          match o_parse_cidr O f0 with
          | None => None
          | Some (dip, dmask) =>
              match to4 dip with
              | None => None
              | Some _ =>
                  if negb (lenb dmask 4) then None
                  else match o_parse_ip O f1 with
                       | None => None
                       | Some rip =>
                           match to4 rip with
                           | None => None
                           | Some _ => option_map (cons {| rt_dest := dip; rt_mask := dmask; rt_router := rip |}) (parse_routes args')
                           end
                       end
              end
          end
      | _ => None
      end
  end.

Definition s_http : bytes := [104;116;116;112].
Definition s_https : bytes := [104;116;116;112;115].
Definition s_ftp : bytes := [102;116;112].

Definition lower (s : bytes) : bytes := map (fun c => if (65 <=? c) && (c <=? 90) then c + 32 else c) s.

Definition str_in (s : bytes) (l : list bytes) : bool := existsb (bytes_eqb s) l.

(* searchdomains.checkDomains: no label longer than 63 bytes *)
Definition domains_ok (ds : list bytes) : bool :=
  forallb (fun d => forallb (fun part => Nat.leb (length part) 63) (split_dot d [])) ds.

Inductive pname := NDns | NMtu | NNetmask | NRouter | NSearch | NStaticRoute | NLeaseTime | NIPv6Only
                 | NAutoconf | NNbp | NSleep | NServerID.

Definition setup4 (n : pname) (args : list bytes) : sres plug4 :=
  match n with
  | NDns => match args with [] => SetErr | _ => match ips_to4 args with Some l => SetOk (PDns l) | None => SetErr end end
  | NMtu => match args with [a] => match o_atoi O a with Some v => SetOk (PMtu v) | None => SetErr end | _ => SetErr end
  | NNetmask =>
      match args with
      | [a] => match o_parse_ip O a with
               | None => SetErr
               | Some ip =>
                   if is_unspecified ip then SetErr
                   else match to4 ip with
                        | None => SetErr
                        | Some m4 => if valid_netmask m4 then SetOk (PNetmask m4) else SetErr
                        end
               end
      | _ => SetErr
      end
  | NRouter => match args with [] => SetErr | _ => match ips_to4 args with Some l => SetOk (PRouter l) | None => SetErr end end
  | NSearch => if domains_ok args then SetOk (PSearch args) else SetErr
  | NStaticRoute => match args with [] => SetErr | _ => match parse_routes args with Some l => SetOk (PStaticRoute l) | None => SetErr end end
  | NLeaseTime => match args with a :: _ => match o_parse_dur O a with Some d => SetOk (PLeaseTime d) | None => SetErr end | [] => SetErr end
  | NIPv6Only =>
      match args with
      | [] => SetOk (PIPv6Only 0)
      | [a] => match o_parse_dur O a with Some d => SetOk (PIPv6Only d) | None => SetErr end
      | _ => SetErr
      end
  | NAutoconf =>
      match args with
      | [] => SetOk (PAutoconf 0)
      | [a] =>
          if bytes_eqb a [48] || bytes_eqb a [68;111;78;111;116;65;117;116;111;67;111;110;102;105;103;117;114;101] then SetOk (PAutoconf 0)
          else if bytes_eqb a [49] || bytes_eqb a [65;117;116;111;67;111;110;102;105;103;117;114;101] then SetOk (PAutoconf 1)
          else SetErr
      | _ => SetErr
      end
  | NNbp =>
      match args with
      | [a] => match o_url O a with
               | None => SetErr
               | Some u => if str_in (u_scheme u) [s_http; s_https; s_ftp]
                           then SetOk (PNbp None (Some (u_string u)))
                           else SetOk (PNbp (Some (u_host u)) (Some (u_path u)))
               end
      | _ => SetErr
      end
  | NSleep => match args with [a] => match o_parse_dur O a with Some d => SetOk (PSleep d) | None => SetErr end | _ => SetErr end
  | NServerID =>
      match args with
      | a :: _ => match o_parse_ip O a with
                  | None => SetErr
                  | Some ip => match to4 ip with Some s4 => SetOk (PServerID s4) | None => SetErr end
                  end
      | [] => SetErr
      end
  end.

Definition t_ll : list bytes := [[108;108]; [100;117;105;100;45;108;108]; [100;117;105;100;95;108;108]].
Definition t_llt : list bytes := [[108;108;116]; [100;117;105;100;45;108;108;116]; [100;117;105;100;95;108;108;116]].

(* None: the plugin has no DHCPv6 setup function *)
Definition setup6 (n : pname) (args : list bytes) : option (sres plug6) :=
  match n with
  | NDns => Some (match args with [] => SetErr | _ => match ips_to16 args with Some l => SetOk (P6Dns l) | None => SetErr end end)
  | NSearch => Some (if domains_ok args then SetOk (P6Search args) else SetErr)
  | NNbp =>
      Some (match args with
            | [a] => match o_url O a with
                     | None => SetErr
                     | Some u => SetOk (P6Nbp (Some (u_string u))
                                   (match u_params u with [] => None | ps => Some (enc_params [ps]) end))
                     end
            | _ => SetErr
            end)
  | NSleep => Some (match args with [a] => match o_parse_dur O a with Some d => SetOk (P6Sleep d) | None => SetErr end | _ => SetErr end)
  | NServerID =>
      Some (match args with
            | t :: v :: _ =>
                match t, v with
                | [], _ | _, [] => SetErr
                | _, _ =>
                    match o_parse_mac O v with
                    | None => SetErr
                    | Some hw =>
                        if str_in (lower t) t_ll then SetOk (P6ServerID ([0;3;0;1] ++ hw))
                        else if str_in (lower t) t_llt then SetOk (P6ServerID ([0;1;0;1;0;0;0;0] ++ hw))
                        else SetErr
                    end
                end
            | _ => SetErr
            end)
  | _ => None
  end.
End Setup.
