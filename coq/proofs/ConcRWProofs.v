(* ConcRWProofs.v — lib/ConcRW.v specialised to handler calls that are ONE critical section, some
   under the read lock (they leave the shared state alone), some under the write lock; and its
   instance for the file plugin: look-ups (Handler4/Handler6 under RLock) overlapping one another
   while the watcher reloads the file (under Lock). *)
From Coq Require Import List Arith Lia Permutation Bool.
From Verif Require Import Base Msg4 Msg6 Setup FilePlugin FileRun FileProofs Conc ConcProofs ConcRW ConcFile.
Import ListNotations.
Local Open Scope nat_scope.

Section RWAtomic.
Variables (St A R : Type) (f : St -> A -> St * R) (is_reader : A -> bool).
Hypothesis Hro : forall a s, is_reader a = true -> fst (f s a) = s.

Definition rwaop (a : A) : rwop St (option R) (option R) :=
  {| w_kind := if is_reader a then Reader else Writer; w_init := None;
     w_crit := [fun x => let '(s', r) := f (fst x) a in (s', Some r)]; w_res := fun l => l |}.

Lemma rwaop_read_only (l : list A) : forall t o, nth_error (map rwaop l) t = Some o -> w_kind _ _ _ o = Reader ->
  forall g, In g (w_crit _ _ _ o) -> forall s lo, fst (g (s, lo)) = s.
Proof.
  intros t o Ho Hk g Hg s lo. rewrite nth_error_map in Ho. destruct (nth_error l t) as [a|]; [|discriminate].
  injection Ho as <-. cbn [rwaop w_kind w_crit] in *. destruct Hg as [<-|[]].
  destruct (is_reader a) eqn:Er; [|discriminate]. cbn [fst]. pose proof (Hro a s Er) as H.
  destruct (f s a) as [s' r]. exact H.
Qed.

Lemma rserial_atomic l sigma : Forall (fun t => t < length l) sigma -> forall s,
  rserial St (option R) (option R) (map rwaop l) sigma s =
  (fst (srun _ _ _ f s (pick _ l sigma)), combine sigma (map Some (snd (srun _ _ _ f s (pick _ l sigma))))).
Proof.
  induction 1 as [|t sigma Ht Hs IH]; intro s; cbn [rserial pick flat_map]; [reflexivity|].
  rewrite nth_error_map. destruct (nth_error l t) as [a|] eqn:Ea; [|apply nth_error_None in Ea; lia].
  cbn [option_map app]. unfold rastep, micro. cbn [rwaop w_crit w_init w_res fold_left fst].
  destruct (f s a) as [s1 r] eqn:Ef. rewrite IH. fold (pick _ l sigma).
  cbn [srun]. rewrite Ef. destruct (srun _ _ _ f s1 (pick _ l sigma)) as [s2 rs]. reflexivity.
Qed.

(* every schedule - look-ups overlapping one another, updates excluding everybody - that runs all
   calls to completion = the serial run of the same calls in some order sigma *)
Theorem rw_atomic_serialisable (l : list A) (s0 : St) sched :
  rall_done St (option R) (option R) (map rwaop l) (rrun St (option R) (option R) (map rwaop l) s0 sched) ->
  exists sigma, Permutation sigma (seq 0 (length l)) /\
    let c := rrun St (option R) (option R) (map rwaop l) s0 sched in
    rsh _ _ _ c = fst (srun _ _ _ f s0 (pick _ l sigma)) /\
    rlock _ _ _ c = LR [] /\
    forall t r, nth_error (rthr _ _ _ c) t = Some (RDone _ _ _ r) ->
      exists k, nth_error sigma k = Some t /\ nth_error (pick _ l sigma) k = nth_error l t /\
                r = nth_error (snd (srun _ _ _ f s0 (pick _ l sigma))) k /\ r <> None.
Proof.
  intros Hd. destruct (rw_serialisable _ _ _ _ _ (rwaop_read_only l) sched Hd) as (sigma & Hp & Hs & Hl & Hr).
  rewrite map_length in Hp. exists sigma. split; [exact Hp|].
  assert (Hf : Forall (fun t => t < length l) sigma).
  { apply Forall_forall. intros t Ht. apply (Permutation_in _ Hp) in Ht. apply in_seq in Ht. lia. }
  cbn zeta. rewrite (rserial_atomic l sigma Hf s0) in Hs, Hr. cbn [fst snd] in Hs, Hr.
  split; [exact Hs|]. split; [exact Hl|].
  intros t r Ht. apply Hr in Ht. apply in_combine_nth in Ht. destruct Ht as (k & H1 & H2).
  exists k. split; [exact H1|]. split; [apply pick_nth; assumption|].
  rewrite nth_error_map in H2. destruct (nth_error (snd (srun _ _ _ f s0 (pick _ l sigma))) k) as [x|]; [|discriminate].
  cbn [option_map] in H2. injection H2 as <-. split; [reflexivity|discriminate].
Qed.
End RWAtomic.

(* ---------- the file plugin: look-ups under RLock, reloads under Lock ---------- *)
Definition fop_reader (o : fop) : bool := match o with FReq4 _ _ | FReq6 _ _ => true | _ => false end.

Lemma fstep_reader_keeps O o t : fop_reader o = true -> fst (fstep O t o) = t.
Proof.
  destruct o as [v d|v d|req resp|req resp]; cbn [fop_reader]; try discriminate; intros _; cbn [fstep].
  - destruct (file_handler4 t req resp). reflexivity.
  - destruct (file_handler6 t req resp). reflexivity.
Qed.

Section ConcFileRW.
Variables (O : oracles) (v6 : bool) (t0 : ftable).
Variable ops : list fop.
Hypothesis Hproto : Forall (same_proto v6) ops.

Let rops := map (rwaop _ _ _ (fstep O) fop_reader) ops.

Theorem file_concurrent_rw sched :
  rall_done _ _ _ rops (rrun _ _ _ rops t0 sched) ->
  exists sigma, Permutation sigma (seq 0 (length ops)) /\
    let hist := pick _ ops sigma in
    let c := rrun _ _ _ rops t0 sched in
    rsh _ _ _ c = last_good O v6 t0 hist /\
    forall t r, nth_error (rthr _ _ _ c) t = Some (RDone _ _ _ r) ->
      exists k o, nth_error sigma k = Some t /\ nth_error ops t = Some o /\
        r = Some (snd (fstep O (last_good O v6 t0 (firstn k hist)) o)).
Proof.
  intros Hd.
  destruct (rw_atomic_serialisable _ _ _ (fstep O) fop_reader (fun a s H => fstep_reader_keeps O a s H) ops t0 sched Hd) as (sigma & Hp & Hs & _ & Hr).
  exists sigma. split; [exact Hp|]. cbn zeta. unfold rops.
  assert (Hf : Forall (fun t => t < length ops) sigma).
  { apply Forall_forall. intros t Ht. apply (Permutation_in _ Hp) in Ht. apply in_seq in Ht. lia. }
  assert (Hw : forall k, Forall (same_proto v6) (firstn k (pick _ ops sigma))).
  { intros k. apply Forall_forall. intros o Ho. assert (In o (pick _ ops sigma)).
    { rewrite <- (firstn_skipn k (pick _ ops sigma)). apply in_or_app. left. exact Ho. }
    unfold pick in H. apply in_flat_map in H. destruct H as (t & _ & Ho').
    destruct (nth_error ops t) as [a|] eqn:Ea; [|destruct Ho']. destruct Ho' as [<-|[]].
    rewrite Forall_forall in Hproto. apply Hproto. eapply nth_error_In; exact Ea. }
  split.
  - rewrite Hs, <- ffinal_srun. apply file_single_instance.
    rewrite <- (firstn_all (pick _ ops sigma)). apply Hw.
  - intros t r Ht. destruct (Hr t r Ht) as (k & H1 & H2 & H3 & H4).
    destruct (nth_error ops t) as [o|] eqn:Eo.
    + exists k, o. split; [exact H1|]. split; [reflexivity|].
      rewrite H3. rewrite (srun_nth _ _ _ (fstep O) _ t0 k o H2).
      rewrite <- ffinal_srun. rewrite (file_single_instance O v6 _ t0 (Hw k)). reflexivity.
    + exfalso. apply nth_error_None in Eo. rewrite Forall_forall in Hf.
      specialize (Hf t (nth_error_In _ _ H1)). lia.
Qed.
End ConcFileRW.

(* ---------- non-vacuity: two look-ups really overlap, and a writer is kept out meanwhile ---------- *)
Definition ex_ops : list (rwop nat (option nat) (option nat)) :=
  [ rwaop _ _ _ (fun s (a : nat) => (s, s + a)) (fun _ => true) 1;          (* reader 0: reads s, answers s+1 *)
    rwaop _ _ _ (fun s (a : nat) => (s, s + a)) (fun _ => true) 2;          (* reader 1 *)
    rwaop _ _ _ (fun s (a : nat) => (s + a, s)) (fun _ => false) 10 ].      (* writer 2: s := s+10, answers old s *)

Example readers_overlap :
  (* both readers inside their sections at once; the writer's attempt is refused meanwhile *)
  rlock _ _ _ (rrun _ _ _ ex_ops 5 [0; 1; 2]) = LR [1; 0] /\
  (* ... and the complete run: readers answered 6 and 7 from the old state, then the writer *)
  (let c := rrun _ _ _ ex_ops 5 [0; 1; 2; 0; 1; 0; 1; 2; 2; 2] in
   rsh _ _ _ c = 15 /\ rlock _ _ _ c = LR [] /\
   rthr _ _ _ c = [RDone _ _ _ (Some 6); RDone _ _ _ (Some 7); RDone _ _ _ (Some 5)]).
Proof. vm_compute. repeat split. Qed.
