(* Msg4CodecProofs.v — round trip of the whole DHCPv4 message codec model. *)
From Coq Require Import List Arith NArith Lia ZifyN ZifyNat ZifyBool Permutation.
From Verif Require Import Base BaseProofs Net NetProofs Bitset Alloc Alloc4Proofs Msg4 Opt4Codec Opt4Proofs Msg4Codec.
Import ListNotations.
Open Scope N_scope.
Local Open Scope nat_scope.

(* ---- fields of a concatenation of segments ---- *)
Lemma fld_app_skip b pre off len : length pre = off -> fld (pre ++ b) off len = firstn len b.
Proof. intros <-. unfold fld. rewrite skipn_app, Nat.sub_diag, skipn_all. reflexivity. Qed.

Lemma firstn_app_exact {A} (x rest : list A) n : length x = n -> firstn n (x ++ rest) = x.
Proof. intros <-. rewrite firstn_app, Nat.sub_diag, firstn_O, app_nil_r, firstn_all. reflexivity. Qed.

Lemma skipn_app_exact {A} (x rest : list A) n : length x = n -> skipn n (x ++ rest) = rest.
Proof. intros <-. rewrite skipn_app, Nat.sub_diag, skipn_all. reflexivity. Qed.

Lemma nth_app_l0 (pre rest : bytes) k : k < length pre -> nth k (pre ++ rest) 0%N = nth k pre 0%N.
Proof. intros H. apply app_nth1. exact H. Qed.

Lemma pad_to_length n b : length (pad_to n b) = n.
Proof. unfold pad_to. rewrite app_length, firstn_length, repeat_length. lia. Qed.

Lemma until_nul_pad s k : ~ In 0%N s -> 0 < k -> until_nul (s ++ repeat 0%N k) = s.
Proof.
  intros Hn Hk. induction s as [|c s IH]; cbn [app until_nul].
  - destruct k; [lia|]. reflexivity.
  - destruct (c =? 0)%N eqn:E; [apply N.eqb_eq in E; exfalso; apply Hn; left; exact E|].
    rewrite IH; [reflexivity|]. intros H; apply Hn; right; exact H.
Qed.

Lemma enc_ip4_len ip x : enc_ip4 ip = Ok x -> length x = 4.
Proof.
  unfold enc_ip4. destruct ip as [|b ip]; [intros H; injection H as <-; reflexivity|].
  destruct (to4 (b :: ip)) as [y|] eqn:E; [|discriminate]. intros H; injection H as <-.
  exact (Alloc4Proofs.to4_length _ _ E).
Qed.

(* what a serialised and re-parsed message looks like *)
Definition norm4 (ip : bytes) : bytes := match enc_ip4 ip with Ok x => x | _ => [0%N; 0%N; 0%N; 0%N] end.
Definition wire_msg (m : msg4) : msg4 :=
  {| m_op := m_op m; m_htype := m_htype m; m_hops := m_hops m; m_xid := m_xid m; m_secs := m_secs m;
     m_flags := m_flags m; m_ciaddr := norm4 (m_ciaddr m); m_yiaddr := norm4 (m_yiaddr m);
     m_siaddr := norm4 (m_siaddr m); m_giaddr := norm4 (m_giaddr m);
     m_chaddr := m_chaddr m; m_sname := m_sname m; m_file := m_file m; m_opts := order (m_opts m) |}.

Record wf_msg (m : msg4) : Prop := {
  w_op : (m_op m < 256)%N; w_htype : (m_htype m < 256)%N; w_hops : (m_hops m < 256)%N;
  w_xid : (m_xid m < 2 ^ 32)%N; w_secs : (m_secs m < 2 ^ 16)%N; w_flags : (m_flags m < 2 ^ 16)%N;
  w_chaddr : length (m_chaddr m) <= 16;
  w_sname : length (m_sname m) <= 63 /\ ~ In 0%N (m_sname m);
  w_file : length (m_file m) <= 127 /\ ~ In 0%N (m_file m);
  w_codes : Forall (fun kv => code_ok (fst kv)) (m_opts m);
  w_nodup : NoDup (map fst (m_opts m)) }.

Theorem msg4_roundtrip_pad m body pad : wf_msg m -> enc_body m = Ok body -> dec_msg (body ++ pad) = Some (wire_msg m).
Proof.
  intros W. unfold enc_body.
  destruct (enc_ip4 (m_ciaddr m)) as [ci|e|] eqn:Eci; try discriminate.
  destruct (enc_ip4 (m_yiaddr m)) as [yi|e|] eqn:Eyi; try discriminate.
  destruct (enc_ip4 (m_siaddr m)) as [si|e|] eqn:Esi; try discriminate.
  destruct (enc_ip4 (m_giaddr m)) as [gi|e|] eqn:Egi; try discriminate.
  cbn [bind]. intros H. assert (Hb : body = [m_op m mod 256; m_htype m mod 256; N.of_nat (length (m_chaddr m)) mod 256; m_hops m mod 256]%N ++
                be_bytes 4 (m_xid m) ++ be_bytes 2 (m_secs m) ++ be_bytes 2 (m_flags m) ++
                ci ++ yi ++ si ++ gi ++ pad_to 16 (m_chaddr m) ++
                pad_to 64 (firstn 63 (m_sname m)) ++ pad_to 128 (firstn 127 (m_file m)) ++
                cookie ++ enc_opts (m_opts m) ++ [255%N]) by congruence. clear H. rename body into body0.
  pose proof (enc_ip4_len _ _ Eci) as Lci. pose proof (enc_ip4_len _ _ Eyi) as Lyi.
  pose proof (enc_ip4_len _ _ Esi) as Lsi. pose proof (enc_ip4_len _ _ Egi) as Lgi.
  destruct W as [Wop Wht Whops Wxid Wsecs Wflags Wch [Wsn1 Wsn2] [Wf1 Wf2] Wcodes Wnd].
  set (hd := [m_op m mod 256; m_htype m mod 256; N.of_nat (length (m_chaddr m)) mod 256; m_hops m mod 256]%N).
  set (x4 := be_bytes 4 (m_xid m)). set (s2 := be_bytes 2 (m_secs m)). set (f2 := be_bytes 2 (m_flags m)).
  set (ch := pad_to 16 (m_chaddr m)). set (sn := pad_to 64 (firstn 63 (m_sname m))).
  set (fl := pad_to 128 (firstn 127 (m_file m))).
  assert (Lx4 : length x4 = 4) by apply be_bytes_length.
  assert (Ls2 : length s2 = 2) by apply be_bytes_length.
  assert (Lf2 : length f2 = 2) by apply be_bytes_length.
  assert (Lch : length ch = 16) by apply pad_to_length.
  assert (Lsn : length sn = 64) by apply pad_to_length.
  assert (Lfl : length fl = 128) by apply pad_to_length.
  (* the datagram as header ++ options ++ padding *)
  set (body := hd ++ x4 ++ s2 ++ f2 ++ ci ++ yi ++ si ++ gi ++ ch ++ sn ++ fl ++ cookie ++ enc_opts (m_opts m) ++ [255%N]).
  assert (Hb' : body0 = body) by exact Hb. clear Hb. subst body0.
  assert (Ebody : body ++ pad = hd ++ x4 ++ s2 ++ f2 ++ ci ++ yi ++ si ++ gi ++ ch ++ sn ++ fl ++ cookie ++ (enc_opts (m_opts m) ++ 255%N :: pad)).
  { unfold body. rewrite <- !app_assoc. cbn [app]. reflexivity. }
  rewrite Ebody. clear Ebody. set (rest := enc_opts (m_opts m) ++ 255%N :: pad).
  unfold dec_msg.
  assert (Llen : 240 <= length (hd ++ x4 ++ s2 ++ f2 ++ ci ++ yi ++ si ++ gi ++ ch ++ sn ++ fl ++ cookie ++ rest)).
  { rewrite !app_length. cbn [length hd cookie]. lia. }
  destruct (Nat.ltb_spec (length (hd ++ x4 ++ s2 ++ f2 ++ ci ++ yi ++ si ++ gi ++ ch ++ sn ++ fl ++ cookie ++ rest)) 240) as [Hlt|_]; [lia|].
  (* field extraction *)
  assert (F : forall pre x post off len, length x = len -> length pre = off -> fld (pre ++ x ++ post) off len = x).
  { intros pre x post off len Hx Hp. rewrite fld_app_skip by exact Hp. apply firstn_app_exact. exact Hx. }
  set (whole := hd ++ x4 ++ s2 ++ f2 ++ ci ++ yi ++ si ++ gi ++ ch ++ sn ++ fl ++ cookie ++ rest).
  assert (Fx : fld whole 4 4 = x4) by (apply (F hd); [exact Lx4|reflexivity]).
  assert (Fs : fld whole 8 2 = s2).
  { unfold whole. rewrite (app_assoc hd x4). apply F; [exact Ls2|]. rewrite app_length, Lx4. reflexivity. }
  assert (Ff : fld whole 10 2 = f2).
  { unfold whole. rewrite (app_assoc hd x4), (app_assoc _ s2). apply F; [exact Lf2|]. rewrite !app_length, Lx4, Ls2. reflexivity. }
  assert (Fci : fld whole 12 4 = ci).
  { unfold whole. rewrite (app_assoc hd x4), (app_assoc _ s2), (app_assoc _ f2). apply F; [exact Lci|]. rewrite !app_length, Lx4, Ls2, Lf2. reflexivity. }
  assert (Fyi : fld whole 16 4 = yi).
  { unfold whole. rewrite (app_assoc hd x4), (app_assoc _ s2), (app_assoc _ f2), (app_assoc _ ci). apply F; [exact Lyi|]. rewrite !app_length, Lx4, Ls2, Lf2, Lci. reflexivity. }
  assert (Fsi : fld whole 20 4 = si).
  { unfold whole. rewrite (app_assoc hd x4), (app_assoc _ s2), (app_assoc _ f2), (app_assoc _ ci), (app_assoc _ yi). apply F; [exact Lsi|]. rewrite !app_length, Lx4, Ls2, Lf2, Lci, Lyi. reflexivity. }
  assert (Fgi : fld whole 24 4 = gi).
  { unfold whole. rewrite (app_assoc hd x4), (app_assoc _ s2), (app_assoc _ f2), (app_assoc _ ci), (app_assoc _ yi), (app_assoc _ si). apply F; [exact Lgi|]. rewrite !app_length, Lx4, Ls2, Lf2, Lci, Lyi, Lsi. reflexivity. }
  assert (Fch : fld whole 28 16 = ch).
  { unfold whole. rewrite (app_assoc hd x4), (app_assoc _ s2), (app_assoc _ f2), (app_assoc _ ci), (app_assoc _ yi), (app_assoc _ si), (app_assoc _ gi). apply F; [exact Lch|]. rewrite !app_length, Lx4, Ls2, Lf2, Lci, Lyi, Lsi, Lgi. reflexivity. }
  assert (Fsn : fld whole 44 64 = sn).
  { unfold whole. rewrite (app_assoc hd x4), (app_assoc _ s2), (app_assoc _ f2), (app_assoc _ ci), (app_assoc _ yi), (app_assoc _ si), (app_assoc _ gi), (app_assoc _ ch). apply F; [exact Lsn|]. rewrite !app_length, Lx4, Ls2, Lf2, Lci, Lyi, Lsi, Lgi, Lch. reflexivity. }
  assert (Ffl : fld whole 108 128 = fl).
  { unfold whole. rewrite (app_assoc hd x4), (app_assoc _ s2), (app_assoc _ f2), (app_assoc _ ci), (app_assoc _ yi), (app_assoc _ si), (app_assoc _ gi), (app_assoc _ ch), (app_assoc _ sn). apply F; [exact Lfl|]. rewrite !app_length, Lx4, Ls2, Lf2, Lci, Lyi, Lsi, Lgi, Lch, Lsn. reflexivity. }
  assert (Fck : fld whole 236 4 = cookie).
  { unfold whole. rewrite (app_assoc hd x4), (app_assoc _ s2), (app_assoc _ f2), (app_assoc _ ci), (app_assoc _ yi), (app_assoc _ si), (app_assoc _ gi), (app_assoc _ ch), (app_assoc _ sn), (app_assoc _ fl).
    apply F; [reflexivity|]. rewrite !app_length, Lx4, Ls2, Lf2, Lci, Lyi, Lsi, Lgi, Lch, Lsn, Lfl. reflexivity. }
  assert (Frest : skipn 240 whole = rest).
  { unfold whole. rewrite (app_assoc hd x4), (app_assoc _ s2), (app_assoc _ f2), (app_assoc _ ci), (app_assoc _ yi), (app_assoc _ si), (app_assoc _ gi), (app_assoc _ ch), (app_assoc _ sn), (app_assoc _ fl), (app_assoc _ cookie).
    apply skipn_app_exact. rewrite !app_length, Lx4, Ls2, Lf2, Lci, Lyi, Lsi, Lgi, Lch, Lsn, Lfl. reflexivity. }
  rewrite Fck. change (negb (bytes_eqb cookie cookie)) with false. cbv iota.
  rewrite Frest. unfold rest.
  destruct (opt4_roundtrip_map (m_opts m) pad Wcodes Wnd) as [Hdec _]. rewrite Hdec.
  rewrite Fx, Fs, Ff, Fci, Fyi, Fsi, Fgi, Fch, Fsn, Ffl.
  (* the four header bytes *)
  assert (N0 : nth 0 whole 0%N = (m_op m mod 256)%N) by reflexivity.
  assert (N1 : nth 1 whole 0%N = (m_htype m mod 256)%N) by reflexivity.
  assert (N2 : nth 2 whole 0%N = (N.of_nat (length (m_chaddr m)) mod 256)%N) by reflexivity.
  assert (N3 : nth 3 whole 0%N = (m_hops m mod 256)%N) by reflexivity.
  rewrite N0, N1, N2, N3.
  rewrite !N.mod_small by lia.
  unfold x4, s2, f2. rewrite !be_val_be_bytes.
  change (256 ^ N.of_nat 4)%N with (2 ^ 32)%N. change (256 ^ N.of_nat 2)%N with (2 ^ 16)%N.
  rewrite !N.mod_small by assumption.
  rewrite Nat2N.id, Nat.min_l by exact Wch.
  unfold wire_msg, norm4. rewrite Eci, Eyi, Esi, Egi.
  f_equal. f_equal.
  - unfold ch, pad_to. rewrite firstn_app, firstn_firstn, Nat.min_l by lia.
    rewrite firstn_length, Nat.min_r by lia. rewrite Nat.sub_diag, firstn_O, app_nil_r.
    apply firstn_all2. lia.
  - unfold sn, pad_to. rewrite (firstn_all2 (m_sname m)) by lia. rewrite (firstn_all2 (m_sname m)) by lia.
    apply until_nul_pad; [exact Wsn2|lia].
  - unfold fl, pad_to. rewrite (firstn_all2 (m_file m)) by lia. rewrite (firstn_all2 (m_file m)) by lia.
    apply until_nul_pad; [exact Wf2|lia].
Qed.

Theorem msg4_roundtrip m b : wf_msg m -> enc_msg m = Ok b -> dec_msg b = Some (wire_msg m).
Proof.
  intros W. unfold enc_msg. destruct (enc_body m) as [body|e|] eqn:E; cbn [bind]; try discriminate.
  intros H. injection H as <-. unfold pad_min. exact (msg4_roundtrip_pad m body _ W E).
Qed.

(* the unpadded form parses to the same message *)
Corollary msg4_roundtrip_body m body : wf_msg m -> enc_body m = Ok body -> dec_msg body = Some (wire_msg m).
Proof. intros W E. rewrite <- (app_nil_r body). exact (msg4_roundtrip_pad m body [] W E). Qed.
