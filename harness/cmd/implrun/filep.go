package main

// C10: lease files through the file plugin (Plugin.Setup4/Setup6 and the handlers), with
// rewrites of the file under autorefresh.  The plugin's table is package-global, so every
// history starts from whatever the previous one left: the harness reads it (it is exported).

import (
	"bytes"
	"fmt"
	"net"
	"os"
	"path/filepath"
	"sort"
	"strings"
	"sync"
	"time"

	"github.com/coredhcp/coredhcp/handler"
	"github.com/coredhcp/coredhcp/plugins/file"
	"github.com/insomniacslk/dhcp/dhcpv4"
	"github.com/insomniacslk/dhcp/dhcpv6"
	"github.com/insomniacslk/dhcp/iana"
)

func init() {
	runners["C10"] = runFile
}

var fileMu sync.Mutex
var badKind int

// the served mapping of a lease file, computed by the harness: last occurrence wins;
// ok=false when any line is malformed
func expectTable(data string, v6 bool) (map[string]net.IP, bool) {
	out := map[string]net.IP{}
	for _, line := range strings.Split(data, "\n") {
		if len(line) == 0 || strings.HasPrefix(line, "#") {
			continue
		}
		f := strings.Fields(line)
		if len(f) != 2 {
			return nil, false
		}
		hw, err := net.ParseMAC(f[0])
		if err != nil {
			return nil, false
		}
		ip := net.ParseIP(f[1])
		if v6 && (ip == nil || ip.To4() != nil) {
			return nil, false
		}
		if !v6 && ip.To4() == nil {
			return nil, false
		}
		out[hw.String()] = ip
	}
	return out, true
}

func vTable(m map[string]net.IP) string {
	if m == nil {
		return "None"
	}
	keys := []string{}
	for k := range m {
		keys = append(keys, k)
	}
	sort.Strings(keys)
	items := []string{}
	for _, k := range keys {
		items = append(items, fmt.Sprintf("(%s, %s)", vStr(k), vBytes(m[k])))
	}
	return "(Some " + vList(items) + ")"
}

var macSpellings = []func(hw []byte) string{
	func(hw []byte) string { return net.HardwareAddr(hw).String() },
	func(hw []byte) string { return strings.ReplaceAll(net.HardwareAddr(hw).String(), ":", "-") },
	func(hw []byte) string { return strings.ToUpper(net.HardwareAddr(hw).String()) },
	func(hw []byte) string {
		s := fmt.Sprintf("%x", hw)
		parts := []string{}
		for i := 0; i+4 <= len(s); i += 4 {
			parts = append(parts, s[i:i+4])
		}
		return strings.Join(parts, ".")
	},
}

type leaseLine struct {
	text string
	mac  []byte // nil for non-entry lines
}

func genLeaseFile(c *Ctx, v6 bool, macs [][]byte, bad bool) string {
	r := c.R
	lines := []string{}
	n := 1 + r.Intn(8)
	ip4 := func() string {
		s := fmt.Sprintf("10.%d.%d.%d", r.Intn(4), r.Intn(256), 1+r.Intn(254))
		if r.Pct(10) {
			return "::ffff:" + s
		}
		return s
	}
	ip6 := func() string {
		return []string{"2001:db8::", "2001:DB8:0:1::", "fd00::", "2001:db8:0:0:0:0:0:"}[r.Intn(4)] + fmt.Sprintf("%x", 1+r.Intn(60000))
	}
	for i := 0; i < n; i++ {
		hw := macs[r.Intn(len(macs))]
		sp := macSpellings[r.Intn(len(macSpellings))](hw)
		ip := ip4()
		if v6 {
			ip = ip6()
		}
		sep := []string{" ", "\t", "   ", " \t "}[r.Intn(4)]
		l := sp + sep + ip
		if r.Pct(15) {
			l = "  " + l
		}
		if r.Pct(15) {
			l += " "
		}
		if r.Pct(8) {
			l += "\r"
		}
		lines = append(lines, l)
		switch r.Intn(8) {
		case 0:
			lines = append(lines, "# a comment")
		case 1:
			lines = append(lines, "")
		case 2:
			lines = append(lines, "#")
		}
	}
	if bad {
		wrongFam := "2001:db8::1"
		if v6 {
			wrongFam = "10.1.1.1"
		}
		b := []string{"02:00:00:00:00:01", "02:00:00:00:00:01 10.0.0.1 extra", "zz:00:00:00:00:01 10.0.0.1", "02:00:00:00:00:01 not-an-ip",
			"02:00:00:00:00:01 " + wrongFam, "   ", " # indented comment", "02:00:00:00:00 10.0.0.1", "\r", "02:00:00:00:00:01 10.0.0.1 10.0.0.2 10.0.0.3",
			// an IPv4 address in IPv4-mapped spelling: the wrong family in a DHCPv6 file (in a DHCPv4 file: another field too many)
			"02:00:00:00:00:01 ::ffff:10.1.1.1" + map[bool]string{true: "", false: " x"}[v6], "02:00:00:00:00:01 ::FFFF:a01:101" + map[bool]string{true: "", false: " x"}[v6],
			"02:00:00:00:00:01 0:0:0:0:0:ffff:10.1.1.1" + map[bool]string{true: "", false: " x"}[v6]}[badKind%13]
		badKind++ // every malformation in turn
		at := r.Intn(len(lines) + 1)
		lines = append(lines[:at], append([]string{b}, lines[at:]...)...)
	}
	s := strings.Join(lines, "\n")
	if r.Pct(70) {
		s += "\n"
	}
	return s
}

func mk6req(c *Ctx, duid dhcpv6.DUID, withIANA bool, relay int, peer net.IP, clla []byte) dhcpv6.DHCPv6 {
	r := c.R
	m := &dhcpv6.Message{MessageType: []dhcpv6.MessageType{dhcpv6.MessageTypeSolicit, dhcpv6.MessageTypeRequest}[r.Intn(2)]}
	copy(m.TransactionID[:], r.Bytes(3))
	if duid != nil {
		m.AddOption(dhcpv6.OptClientID(duid))
	}
	if withIANA {
		ia := &dhcpv6.OptIANA{}
		copy(ia.IaId[:], r.Bytes(4))
		m.AddOption(ia)
		if r.Pct(20) {
			ia2 := &dhcpv6.OptIANA{}
			copy(ia2.IaId[:], r.Bytes(4))
			m.AddOption(ia2)
		}
	}
	var d dhcpv6.DHCPv6 = m
	for k := 0; k < relay; k++ {
		p := net.IP(r.Bytes(16))
		if k == 0 && peer != nil {
			p = peer
		}
		rm, _ := dhcpv6.EncapsulateRelay(d, dhcpv6.MessageTypeRelayForward, net.IP(r.Bytes(16)), p)
		if k == 0 && clla != nil {
			rm.AddOption(dhcpv6.OptClientLinkLayerAddress(iana.HWTypeEthernet, net.HardwareAddr(clla)))
		}
		d = rm
	}
	out, err := dhcpv6.FromBytes(d.ToBytes())
	if err != nil {
		return nil
	}
	return out
}

// autorefresh set-ups made by this process so far (each holds an inotify instance for good)
var watchersUsed int

func runFile(c *Ctx) {
	c.SetCases("From Verif Require Import Base Msg4 Msg6 Setup PluginRun FilePlugin FileRun.", "FileRun.mismatches")
	c.shard = 25
	hook := installHook()
	r := c.R
	wd := workDir()
	nh := c.Scale(40, 800)
	for hi := 0; hi < nh; hi++ {
		fileMu.Lock()
		dual := hi%5 == 4
		nmac := 2 + r.Intn(5)
		macs := [][]byte{}
		for i := 0; i < nmac; i++ {
			l := []int{6, 6, 6, 8, 20}[r.Intn(5)]
			m := r.Bytes(l)
			macs = append(macs, m)
		}
		var ops, obs, opS []string
		strs := []string{}
		// the table the process has right now
		initTxt := vTable(file.StaticRecords)
		type inst struct {
			v6       bool
			path     string
			content  string
			h4       handler.Handler4
			h6       handler.Handler6
			ok       bool
			replaced bool // the lease file was replaced by rename: the plugin's watch is on the old file
		}
		var insts []*inst
		rec := func() map[string]interface{} { return map[string]interface{}{"ops": opS, "observed": obs} }
		collect := func(data string) {
			for _, line := range strings.Split(data, "\n") {
				strs = append(strs, strings.Fields(line)...)
			}
		}
		setup := func(v6 bool, bad bool, autorefresh bool) *inst {
			in := &inst{v6: v6, path: filepath.Join(wd, fmt.Sprintf("leases-%d-%d-%v.txt", os.Getpid(), hi, v6))}
			switch hi % 5 { // the configured path need not be in clean form
			case 1:
				in.path = wd + "/./" + filepath.Base(in.path)
			case 2:
				in.path = wd + "//" + filepath.Base(in.path)
			case 3:
				in.path = wd + "/../" + filepath.Base(wd) + "/" + filepath.Base(in.path)
			}
			in.content = genLeaseFile(c, v6, macs, bad)
			os.WriteFile(in.path, []byte(in.content), 0o644)
			collect(in.content)
			args := []string{in.path}
			if autorefresh {
				args = append(args, "autorefresh")
			}
			var err error
			if v6 {
				in.h6, err = file.Plugin.Setup6(args...)
			} else {
				in.h4, err = file.Plugin.Setup4(args...)
			}
			if err != nil && autorefresh && (strings.Contains(err.Error(), "too many open files") || strings.Contains(err.Error(), "failed to create watcher")) {
				// the kernel's per-user limit of inotify instances (the plugin never closes a watcher, and this
				// process has set up many): not the plugin's verdict on the file - set up without autorefresh
				c.Count("setup:watcher-limit-reached")
				autorefresh = false
				watchersUsed = 1 << 30
				if v6 {
					in.h6, err = file.Plugin.Setup6(in.path)
				} else {
					in.h4, err = file.Plugin.Setup4(in.path)
				}
			}
			in.ok = err == nil
			ops = append(ops, fmt.Sprintf("FSetup %s (Some %s)", vBool(v6), vStr(in.content)))
			opS = append(opS, fmt.Sprintf("Setup%s autorefresh=%v file=%q", map[bool]string{true: "6", false: "4"}[v6], autorefresh, in.content))
			want, wantOk := expectTable(in.content, v6)
			_ = want
			if in.ok {
				obs = append(obs, "FSetupOk")
			} else {
				obs = append(obs, "FSetupErr")
			}
			if in.ok != wantOk {
				c.vio("C10", "file-acceptance", fmt.Sprintf("lease file accepted=%v although well-formed=%v (error: %v): %q", in.ok, wantOk, err, in.content), rec())
			}
			c.Count(fmt.Sprintf("setup:v6=%v,ok=%v", v6, in.ok))
			return in
		}
		auto := r.Pct(60) && watchersUsed < 48 // (inotify instances are limited per user, 128 by default, and are never released by the plugin)
		if auto {
			watchersUsed++
			if dual {
				watchersUsed++
			}
		}
		first := setup(r.Bool() && !dual, r.Pct(25), auto)
		insts = append(insts, first)
		if dual {
			insts = append(insts, setup(true, r.Pct(10), auto))
		}
		// the mapping each instance should serve: its last well-formed content
		served := map[bool]map[string]net.IP{}
		for _, in := range insts {
			if in.ok {
				served[in.v6], _ = expectTable(in.content, in.v6)
			}
		}
		nops := 3 + r.Intn(10)
		for oi := 0; oi < nops; oi++ {
			in := insts[r.Intn(len(insts))]
			if !in.ok {
				continue
			}
			if auto && watchersUsed < 1<<30 && r.Pct(30) {
				// rewrite the file in place (one write, never shorter than before), wait for the watcher
				bad := r.Pct(40)
				nc := genLeaseFile(c, in.v6, macs, bad)
				if !bad && r.Pct(15) {
					nc = "# every lease retired\n" // a well-formed file without entries: the mapping becomes empty
					c.Count("rewrite:to-empty-mapping")
				}
				for len(nc) < len(in.content) {
					nc += "#pad\n"
				}
				collect(nc)
				hook.take()
				replaced := false
				if !bad && !in.replaced && r.Pct(20) {
					// update by atomic replacement: a temporary file renamed over the lease file (the watch is
					// on the old file, so this is the last update this instance will notice)
					tmp := in.path + ".new"
					if os.WriteFile(tmp, []byte(nc), 0o644) == nil && os.Rename(tmp, in.path) == nil {
						replaced = true
						in.replaced = true
						c.Count("rewrite:by-rename")
					}
				}
				if !replaced {
					if in.replaced {
						continue // the plugin no longer watches this path
					}
					f, err := os.OpenFile(in.path, os.O_WRONLY, 0o644)
					if err != nil {
						continue
					}
					f.Write([]byte(nc))
					f.Close()
				}
				deadline := time.Now().Add(3 * time.Second)
				seen := false
				for time.Now().Before(deadline) && !seen {
					for _, m := range hook.take() {
						if (strings.Contains(m, "updated to") || strings.Contains(m, "failed to refresh")) && strings.Contains(m, in.path) {
							seen = true
						}
					}
					if !seen {
						time.Sleep(2 * time.Millisecond)
					}
				}
				if !seen {
					c.vio("C10", "refresh-not-seen", "no reload within 3 s of a rewrite of the lease file under autorefresh", rec())
					break
				}
				time.Sleep(5 * time.Millisecond) // let a second event of the same write settle
				in.content = nc
				ops = append(ops, fmt.Sprintf("FEvent %s (Some %s)", vBool(in.v6), vStr(nc)))
				opS = append(opS, fmt.Sprintf("rewrite v6=%v bad=%v file=%q", in.v6, bad, nc))
				obs = append(obs, "FEventDone")
				if t, ok := expectTable(nc, in.v6); ok {
					served[in.v6] = t
				}
				if !dual {
					// all or nothing: the table is the new mapping if the new content is well-formed, else the previous one
					got, want := file.StaticRecords, served[in.v6]
					same := len(got) == len(want)
					for k, v := range want {
						if g, ok := got[k]; !ok || !g.Equal(v) {
							same = false
						}
					}
					if !same {
						c.vio("C10", "refresh-not-all-or-nothing", fmt.Sprintf("after a %s rewrite of the lease file the served table has %d entries, expected %d (the %s mapping)", map[bool]string{true: "malformed", false: "well-formed"}[bad], len(got), len(want), map[bool]string{true: "previous", false: "new"}[bad]), rec())
					}
				}
				c.Count(fmt.Sprintf("rewrite:bad=%v", bad))
				continue
			}
			if in.v6 {
				// a DHCPv6 request
				hw := macs[r.Intn(len(macs))]
				if r.Pct(25) {
					hw = r.Bytes(6)
				}
				var duid dhcpv6.DUID
				switch r.Intn(4) {
				case 0:
					duid = &dhcpv6.DUIDLL{HWType: iana.HWTypeEthernet, LinkLayerAddr: hw}
				case 1:
					duid = &dhcpv6.DUIDLLT{HWType: iana.HWTypeEthernet, Time: 7, LinkLayerAddr: hw}
				case 2:
					duid = &dhcpv6.DUIDEN{EnterpriseNumber: 9, EnterpriseIdentifier: hw}
				}
				relay := []int{0, 0, 1, 2}[r.Intn(4)]
				var peer net.IP
				var clla []byte
				wantMac := hw
				if _, isEN := duid.(*dhcpv6.DUIDEN); isEN || duid == nil {
					wantMac = nil
				}
				if relay > 0 && len(hw) == 6 && r.Pct(40) {
					other := macs[r.Intn(len(macs))]
					if len(other) == 6 {
						peer = net.IP{0xfe, 0x80, 0, 0, 0, 0, 0, 0, other[0] ^ 2, other[1], other[2], 0xff, 0xfe, other[3], other[4], other[5]}
						wantMac = other
					}
				}
				if relay > 0 && r.Pct(30) {
					clla = macs[r.Intn(len(macs))]
					wantMac = clla
				}
				withIANA := r.Pct(80)
				req := mk6req(c, duid, withIANA, relay, peer, clla)
				if req == nil {
					continue
				}
				inner, _ := req.GetInnerMessage()
				resp := &dhcpv6.Message{MessageType: dhcpv6.MessageTypeReply, TransactionID: inner.TransactionID}
				rp, _ := dhcpv6.FromBytes(resp.ToBytes())
				rps, _ := vPkt6(rp) // printed before the call: the handler writes into the response
				out, stop, pan := func() (o dhcpv6.DHCPv6, s bool, p bool) {
					defer func() {
						if recover() != nil {
							p = true
						}
					}()
					o, s = in.h6(req, rp)
					return
				}()
				rq, _ := vPkt6(req)
				ops = append(ops, fmt.Sprintf("FReq6 %s %s", rq, rps))
				opS = append(opS, fmt.Sprintf("v6 request mac=%x ia_na=%v relay=%d", wantMac, withIANA, relay))
				if pan {
					c.vio("C10", "file-handler-panic", "Handler6 panicked", rec())
					break
				}
				if out == nil {
					obs = append(obs, "F6 None "+vBool(stop))
					c.vio("C10", "file6-dropped", "Handler6 dropped a request", rec())
					continue
				}
				back, berr := dhcpv6.FromBytes(out.ToBytes())
				if berr != nil {
					c.vio("C10", "reply-unparseable", "the DHCPv6 reply does not parse: "+berr.Error(), rec())
					break
				}
				ot, _ := vPkt6(back)
				obs = append(obs, fmt.Sprintf("F6 (Some %s) %s", ot, vBool(stop)))
				// monitor
				bm, _ := back.GetInnerMessage()
				ianas := bm.Options.IANA()
				var wantIP net.IP
				if wantMac != nil && withIANA {
					wantIP = served[true][net.HardwareAddr(wantMac).String()]
				}
				switch {
				case wantIP == nil && len(ianas) != 0:
					if dual {
						c.vio("C10", "dual-stack-crosstalk", fmt.Sprintf("dual-stack: the DHCPv6 handler answered a client not listed in the DHCPv6 file with %v", ianas[0].Options.Addresses()), rec())
					} else {
						c.vio("C10", "file6-unlisted-served", fmt.Sprintf("client %x is not listed (or asked for no address) but got an IA_NA", wantMac), rec())
					}
				case wantIP != nil && (len(ianas) != 1 || len(ianas[0].Options.Addresses()) != 1 || !ianas[0].Options.Addresses()[0].IPv6Addr.Equal(wantIP)):
					kind := "file6-wrong-address"
					if dual {
						kind = "dual-stack-crosstalk"
					}
					c.vio("C10", kind, fmt.Sprintf("client %x is listed with %v in the DHCPv6 file, the reply carries %d IA_NA", wantMac, wantIP, len(ianas)), rec())
				case wantIP != nil && ianas[0].IaId != inner.Options.OneIANA().IaId:
					c.vio("C10", "file6-iaid", "the IA_NA of the reply does not carry the IAID of the request", rec())
				}
				if stop {
					c.vio("C10", "file6-stop", "Handler6 signalled stop", rec())
				}
				c.Count("request:v6")
			} else {
				hw := macs[r.Intn(len(macs))]
				if r.Pct(25) {
					hw = r.Bytes([]int{6, 6, 0, 16}[r.Intn(4)])
				}
				if len(hw) > 16 {
					hw = hw[:16]
				}
				req := mkReq4(hw, "", dhcpv4.MessageTypeDiscover)
				req, _ = dhcpv4.FromBytes(req.ToBytes())
				resp, _ := dhcpv4.NewReplyFromRequest(req)
				resp.UpdateOption(dhcpv4.OptMessageType(dhcpv4.MessageTypeOffer))
				resp, _ = dhcpv4.FromBytes(resp.ToBytes())
				respTxt := vMsg4(resp)
				out, stop, pan, _ := callH4(in.h4, req, resp)
				ops = append(ops, fmt.Sprintf("FReq4 %s %s", vMsg4(req), respTxt))
				opS = append(opS, fmt.Sprintf("v4 request chaddr=%x", hw))
				if pan {
					c.vio("C10", "file-handler-panic", "Handler4 panicked", rec())
					break
				}
				if out == nil {
					obs = append(obs, "F4 None "+vBool(stop))
					c.vio("C10", "file4-dropped", "Handler4 returned nil", rec())
					continue
				}
				// what the client would see on the wire (an address that cannot be serialised is a finding of its own)
				var back *dhcpv4.DHCPv4
				serPanic := false
				func() {
					defer func() {
						if recover() != nil {
							serPanic = true
						}
					}()
					back, _ = dhcpv4.FromBytes(out.ToBytes())
				}()
				want := served[false][net.HardwareAddr(hw).String()]
				if serPanic || back == nil {
					kind := "file4-unserialisable"
					if dual {
						kind = "dual-stack-crosstalk"
					}
					c.vio("C10", kind, fmt.Sprintf("the DHCPv4 reply for %x carries yiaddr %v, which cannot be serialised (ToBytes panics)", hw, out.YourIPAddr), rec())
					// keep the model in step: the observation is the in-memory reply
					obs = append(obs, fmt.Sprintf("F4 (Some %s) %s", vMsg4(normYi(out)), vBool(stop)))
					continue
				}
				obs = append(obs, fmt.Sprintf("F4 (Some %s) %s", vMsg4(back), vBool(stop)))
				switch {
				case want == nil && (stop || !back.YourIPAddr.Equal(net.IPv4zero)):
					kind := "file4-unlisted-served"
					if dual {
						kind = "dual-stack-crosstalk"
					}
					c.vio("C10", kind, fmt.Sprintf("client %x is not listed in the DHCPv4 file but was given %v (stop=%v)", hw, back.YourIPAddr, stop), rec())
				case want != nil && (!back.YourIPAddr.Equal(want) || !stop):
					kind := "file4-wrong-address"
					if dual {
						kind = "dual-stack-crosstalk"
					}
					c.vio("C10", kind, fmt.Sprintf("client %x is listed with %v in the DHCPv4 file, the reply carries %v (stop=%v)", hw, want, back.YourIPAddr, stop), rec())
				}
				c.Count("request:v4")
			}
		}
		c.AddCase(fmt.Sprintf("CFile %s %s %s %s", oracleTables(strs), initTxt, vList(ops), vList(obs)))
		c.Eval(strings.Join(opS, "|"), len(ops) >= 2)
		if hi%7 == 0 {
			k := len(opS)
			if k > 4 {
				k = 4
			}
			c.Sample(map[string]interface{}{"dual_stack": dual, "autorefresh": auto, "ops(first 4)": opS[:k], "length": len(opS)})
		}
		for _, in := range insts {
			os.Remove(in.path)
		}
		fileMu.Unlock()
	}
	runFileLongLine(c)
	c.Extra["rule"] = "lease files generated from valid lines in every MAC spelling (colon, dash, upper case, dotted; 6/8/20 bytes) and address spelling, comments, blank lines, CRLF, leading/trailing blanks, duplicates, and one of each malformation (field count, MAC, address, wrong family, indented comment); Setup4/Setup6 with and without autorefresh; in-place rewrites (good and bad) awaited through the plugin's log lines; requests for listed and unlisted clients (DHCPv6: DUID-LL/LLT/EN, relay with EUI-64 peer address or client link-layer option, with and without IA_NA); every fifth history configures both protocols; non-trivial = distinct history with >= 2 ops"
	_ = bytes.Equal
}

// normYi returns a copy whose yiaddr is printable as the model's wire4 prints it
func normYi(m *dhcpv4.DHCPv4) *dhcpv4.DHCPv4 {
	cp := *m
	if cp.YourIPAddr.To4() == nil {
		cp.YourIPAddr = net.IPv4zero.To4()
	} else {
		cp.YourIPAddr = cp.YourIPAddr.To4()
	}
	cp.ClientIPAddr, cp.ServerIPAddr, cp.GatewayIPAddr = cp.ClientIPAddr.To4(), cp.ServerIPAddr.To4(), cp.GatewayIPAddr.To4()
	return &cp
}

// runFileLongLine: a lease file with one very long line (a 70 000-byte comment) between entries:
// the entries after it are served like any other, and a malformed line after it still rejects the
// file.  (Monitors only: the file is too long to hand to the Coq model as a case.)
func runFileLongLine(c *Ctx) {
	fileMu.Lock()
	defer fileMu.Unlock()
	wd := workDir()
	long := "# " + strings.Repeat("x", 70000)
	for _, v6 := range []bool{false, true} {
		a1, a2 := "10.44.0.1", "10.44.0.2"
		if v6 {
			a1, a2 = "2001:db8:44::1", "2001:db8:44::2"
		}
		good := "02:44:00:00:00:01 " + a1 + "\n" + long + "\n02:44:00:00:00:02 " + a2 + "\n"
		bad := "02:44:00:00:00:01 " + a1 + "\n" + long + "\n02:44:00:00:00:02 not-an-address\n"
		path := filepath.Join(wd, fmt.Sprintf("leases-long-%d-%v.txt", os.Getpid(), v6))
		in := map[string]interface{}{"dhcpv6": v6, "file": "entry 1, a comment line of 70002 bytes, entry 2"}
		os.WriteFile(path, []byte(bad), 0o644)
		var err error
		if v6 {
			_, err = file.Plugin.Setup6(path)
		} else {
			_, err = file.Plugin.Setup4(path)
		}
		c.Evals++
		if err == nil {
			c.vio("C10", "file-acceptance", "a lease file with a malformed line after a very long comment line is accepted", in)
		}
		os.WriteFile(path, []byte(good), 0o644)
		var h4 handler.Handler4
		var h6 handler.Handler6
		if v6 {
			h6, err = file.Plugin.Setup6(path)
		} else {
			h4, err = file.Plugin.Setup4(path)
		}
		os.Remove(path)
		c.Evals++
		if err != nil {
			c.vio("C10", "file-acceptance", fmt.Sprintf("a well-formed lease file with a very long comment line is rejected: %v", err), in)
			continue
		}
		mac := net.HardwareAddr{2, 0x44, 0, 0, 0, 2}
		if !v6 {
			req := mkReq4(mac, "", dhcpv4.MessageTypeDiscover)
			resp, _ := dhcpv4.NewReplyFromRequest(req)
			out, _, pan, _ := callH4(h4, req, resp)
			if pan || out == nil || !out.YourIPAddr.Equal(net.ParseIP(a2)) {
				c.vio("C10", "mapping-not-served", fmt.Sprintf("the entry after a very long comment line is not served: client %v should get %s", mac, a2), in)
			}
		} else {
			req := mk6req(c, &dhcpv6.DUIDLL{HWType: iana.HWTypeEthernet, LinkLayerAddr: mac}, true, 0, nil, nil)
			m, _ := req.GetInnerMessage()
			resp, _ := dhcpv6.NewAdvertiseFromSolicit(m)
			if resp == nil {
				rr, _ := dhcpv6.NewReplyFromMessage(m)
				resp = rr
			}
			var out dhcpv6.DHCPv6
			func() {
				defer func() { recover() }()
				out, _ = h6(req, resp)
			}()
			found := false
			if om, ok := out.(*dhcpv6.Message); ok && om != nil {
				for _, ia := range om.Options.IANA() {
					for _, ad := range ia.Options.Addresses() {
						if ad.IPv6Addr.Equal(net.ParseIP(a2)) {
							found = true
						}
					}
				}
			}
			if !found {
				c.vio("C10", "mapping-not-served", fmt.Sprintf("the entry after a very long comment line is not served: client %v should get %s in its IA_NA", mac, a2), in)
			}
		}
	}
	c.Count("file:long-line")
}
