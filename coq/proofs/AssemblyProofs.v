(* AssemblyProofs.v — C01 for the assembled server: for every chain of validly configured plugin
   instances, every history of datagrams (any parse result, any clock readings, any control
   messages) never reaches the outcome "panic", keeps every instance valid, and yields exactly one
   outcome - one reply or a drop - per datagram. *)
From Coq Require Import Lia.
From Verif Require Import Base BaseProofs Net NetProofs Bitset Alloc Msg4 Msg6 Chain Server4 Server6 Plugins4 Plugins6 Setup
  Alloc4Proofs RangePlugin RangeRun RangeProofs RangeTheorems FilePlugin PrefixPlugin PrefixProofs PrefixTheorems PluginProofs Server4Proofs Assembly.
Open Scope N_scope.

(* ---------- the stateful dispatch loop ---------- *)
Section ChainSafe.
Context {I Q R : Type}.
Variable call : I -> Q -> option R -> I * res (option R * bool).
Variables (okI : I -> Prop) (okR : R -> Prop) (req : Q).
Hypothesis Hcall : forall i r, okI i -> okR r ->
  let '(i', o) := call i req (Some r) in
  okI i' /\ match o with Ok (Some r', _) => okR r' | Ok (None, stop) => stop = true | _ => False end.

Lemma run_insts_safe : forall is r, Forall okI is -> okR r ->
  let '(is', o) := run_insts call is req (Some r) in
  Forall okI is' /\ length is' = length is /\
  match o with Ok (Some r') => okR r' | Ok None => True | _ => False end.
Proof.
  induction is as [|i is IH]; intros r Hi Hr; cbn [run_insts].
  - split; [constructor|]. split; [reflexivity|exact Hr].
  - pose proof (Hcall i r (Forall_inv Hi) Hr) as Hc.
    destruct (call i req (Some r)) as [i' o]. destruct Hc as [Hi' Ho].
    destruct o as [[r' stop]|e|]; [|destruct Ho|destruct Ho].
    destruct stop.
    + split; [constructor; [exact Hi'|exact (Forall_inv_tail Hi)]|]. split; [reflexivity|].
      destruct r' as [r'|]; [exact Ho|constructor].
    + destruct r' as [r'|]; [|discriminate Ho].
      pose proof (IH r' (Forall_inv_tail Hi) Ho) as H.
      destruct (run_insts call is req (Some r')) as [is'' o']. destruct H as (H1 & H2 & H3).
      split; [constructor; assumption|]. split; [cbn [length]; congruence|exact H3].
Qed.
End ChainSafe.

(* ---------- DHCPv4 instances ---------- *)
Definition ftable_v4 (t : ftable) : Prop :=
  match t with None => True | Some l => Forall (fun e => ip_ser_ok (snd e) = true) l end.

Definition inst4_ok (i : inst4) : Prop :=
  match i with
  | I4Plug p => exists O n args, setup4 O n args = SetOk p          (* what some set-up accepted *)
  | I4Range st => rinv st                                           (* a reachable range-plugin state *)
  | I4File t => ftable_v4 t                                         (* a table of IPv4 addresses *)
  end.

Lemma setup4_ok_handler_ok O n args p : setup4 O n args = SetOk p ->
  forall req resp, exists x, plug4_handler p req resp = Ok x.
Proof.
  intros H req resp. pose proof (setup4_ok_handler_safe O n args p H req resp) as Hs.
  destruct p; cbn [plug4_handler] in *.
  6:{ destruct routes as [|r rs]; [eexists; reflexivity|].
      destruct (enc_routes (r :: rs)) as [v|e|] eqn:E; cbn [bind] in *; [eexists; reflexivity| |contradiction].
      exfalso.
      assert (F : Forall (fun r => to4 (rt_dest r) <> None /\ length (rt_mask r) = 4%nat /\ to4 (rt_router r) <> None) (r :: rs)).
      { destruct n; cbn [setup4] in H; try discriminate;
          repeat match type of H with
          | match ?x with _ => _ end = _ => destruct x eqn:?; try discriminate
          end.
        all: try (injection H as <-; eapply parse_routes_ok; eassumption). }
      destruct (enc_routes_ok _ F) as (v & Ev). congruence. }
  all: repeat match goal with
       | |- context [if ?c then _ else _] => destruct c
       | |- context [match ?x with _ => _ end] => destruct x
       end; eexists; reflexivity.
Qed.

Lemma ser_ok_set_yiaddr r ip : ser_ok r = true -> ip_ser_ok ip = true -> ser_ok (set_yiaddr r ip) = true.
Proof.
  unfold ser_ok. cbn [set_yiaddr m_ciaddr m_yiaddr m_siaddr m_giaddr]. intros H Hi.
  repeat (apply andb_true_iff in H; destruct H as [H ?]).
  repeat (apply andb_true_iff; split); assumption.
Qed.

Lemma tget_in k t v : tget k t = Some v -> exists k', In (k', v) t.
Proof.
  induction t as [|[k' v'] t IH]; cbn [tget]; [discriminate|].
  destruct (bytes_eqb k' k); [intros H; injection H as <-; exists k'; left; reflexivity|].
  intros H. destruct (IH H) as (k2 & Hin). exists k2. right; exact Hin.
Qed.

Lemma to4_or_nil_ser_ok ip : ip_ser_ok (to4_or_nil ip) = true.
Proof.
  unfold to4_or_nil. destruct (to4 ip) as [x|] eqn:E; [|reflexivity].
  apply ip_ser_ok_len4. exact (to4_length _ _ E).
Qed.

Lemma host_req_of c h :
  match opt_get 12 (m_opts (req_of c h)) with Some x => x | None => [] end = h.
Proof. destruct h as [|b h]; reflexivity. Qed.

Lemma range_handler_req s now req resp :
  range_handler s now req resp =
  range_handler s now (req_of (m_chaddr req) (match opt_get 12 (m_opts req) with Some h => h | None => [] end)) resp.
Proof. unfold range_handler. rewrite host_req_of. reflexivity. Qed.

Lemma range_reply_form s now req resp s' m stop :
  range_handler s now req resp = (s', Ok (Some m, stop)) ->
  exists ip v, m = upd_opt (set_yiaddr resp (to4_or_nil ip)) 51 v.
Proof.
  unfold range_handler.
  destruct (recs_get (mac_string (m_chaddr req)) (rs_recs s)) as [rc|].
  - destruct (rc_exp rc * NS <? now + rs_lease s)%Z; intros H; injection H as _ <- _; eexists; eexists; reflexivity.
  - destruct (allocate4 (rs_alloc s) []) as [a' [ip|e|]]; intros H; try discriminate.
    injection H as _ <- _. eexists; eexists; reflexivity.
Qed.

Lemma inst4_call_safe now req : wf_bytes (m_chaddr req) -> forall i r, inst4_ok i -> ser_ok r = true ->
  let '(i', o) := inst4_call now i req (Some r) in
  inst4_ok i' /\ match o with Ok (Some r', _) => ser_ok r' = true | Ok (None, stop) => stop = true | _ => False end.
Proof.
  intros Wc i r Hi Hr. destruct i as [p|st|t]; cbn [inst4_call inst4_ok] in *.
  - destruct Hi as (O & n & args & Hs). split; [exists O, n, args; exact Hs|].
    destruct (setup4_ok_handler_ok O n args p Hs req r) as ([r' stop] & E). rewrite E.
    destruct r' as [r'|].
    + exact (setup4_ok_reply_serialisable O n args p Hs req r r' stop Hr E).
    + exact (plug4_none p req r stop E).
  - rewrite range_handler_req.
    pose proof (handler_step st now (m_chaddr req) (match opt_get 12 (m_opts req) with Some h => h | None => [] end) r Hi Wc) as H.
    cbn zeta in H.
    destruct (range_handler st now _ r) as [st' o] eqn:E. destruct o as [[[m|] stop]|e|]; try contradiction.
    + destruct H as (_ & Hinv & _). split; [exact Hinv|].
      (* the reply is resp with yiaddr := a 4-byte (or empty) address and option 51 updated *)
      destruct (range_reply_form _ _ _ _ _ _ _ E) as (ip & v & ->).
      rewrite ser_ok_upd. apply ser_ok_set_yiaddr; [exact Hr|apply to4_or_nil_ser_ok].
    + destruct H as (Hstop & -> & _). split; [exact Hi|exact Hstop].
  - split; [exact Hi|]. unfold file_handler4.
    destruct (ft_get (mac_string (m_chaddr req)) t) as [ip|] eqn:E; [|exact Hr].
    apply ser_ok_set_yiaddr; [exact Hr|].
    destruct t as [l|]; cbn [ft_get] in E; [|discriminate].
    destruct (tget_in _ _ _ E) as (k' & Hin). cbn [ftable_v4] in Hi. rewrite Forall_forall in Hi. exact (Hi _ Hin).
Qed.

(* ---------- the DHCPv4 listener ---------- *)
(* what the parser delivers: hardware-address bytes are bytes, the relay address has 4 bytes *)
Definition wf_req4 (m : msg4) : Prop := wf_bytes (m_chaddr m) /\ length (m_giaddr m) = 4%nat.
Definition wf_dgram4 (d : dgram4) : Prop := match snd d with Some m => wf_req4 m | None => True end.

Lemma start4_ser_ok req r0 : length (m_giaddr req) = 4%nat -> start4 req = Some r0 -> ser_ok r0 = true.
Proof.
  intros L. unfold start4.
  assert (S : ser_ok (reply_stub req) = true).
  { unfold ser_ok, reply_stub. cbn [m_ciaddr m_yiaddr m_siaddr m_giaddr]. rewrite (ip_ser_ok_len4 _ L). reflexivity. }
  destruct (msg_type req =? 1); [intros H; injection H as <-; rewrite ser_ok_upd; exact S|].
  destruct (msg_type req =? 3); [intros H; injection H as <-; rewrite ser_ok_upd; exact S|discriminate].
Qed.

Theorem srv4_step_safe is lif now oob parsed :
  Forall inst4_ok is -> (match parsed with Some m => wf_req4 m | None => True end) ->
  let '(is', o) := srv4_step is lif now oob parsed in
  Forall inst4_ok is' /\ length is' = length is /\ o <> O4Panic.
Proof.
  intros Hi Hw. unfold srv4_step.
  destruct parsed as [req|]; [|split; [exact Hi|split; [reflexivity|discriminate]]].
  destruct Hw as [Wc Wg].
  destruct (negb (m_op req =? 1)); [split; [exact Hi|split; [reflexivity|discriminate]]|].
  destruct (start4 req) as [r0|] eqn:Es; [|split; [exact Hi|split; [reflexivity|discriminate]]].
  pose proof (run_insts_safe (inst4_call now) inst4_ok (fun r => ser_ok r = true) req
                (inst4_call_safe now req Wc) is r0 Hi (start4_ser_ok req r0 Wg Es)) as H.
  destruct (run_insts (inst4_call now) is req (Some r0)) as [is' o]. destruct H as (H1 & H2 & H3).
  destruct o as [[rsp|]|e|]; try contradiction; [|split; [exact H1|split; [exact H2|discriminate]]].
  destruct (peer4 req rsp) as [[ip port] l2]. rewrite H3.
  destruct l2.
  - destruct (if ip_equal ip bcast4 || is_link_local ip || true then pick_if lif oob else None);
      (split; [exact H1|split; [exact H2|discriminate]]).
  - split; [exact H1|split; [exact H2|discriminate]].
Qed.

(* every history: no datagram, after any earlier datagrams, makes the server panic; there is
   exactly one outcome per datagram (one reply or a drop); the chain keeps its shape *)
Theorem srv4_history_safe lif : forall h is,
  Forall inst4_ok is -> Forall wf_dgram4 h ->
  let '(is', os) := srv4_run is lif h in
  Forall inst4_ok is' /\ length os = length h /\ ~ In O4Panic os.
Proof.
  induction h as [|[[now oob] p] h IH]; intros is Hi Hh; cbn [srv4_run].
  - split; [exact Hi|]. split; [reflexivity|intros []].
  - pose proof (srv4_step_safe is lif now oob p Hi (Forall_inv Hh)) as Hs.
    destruct (srv4_step is lif now oob p) as [is1 o]. destruct Hs as (H1 & _ & H3).
    pose proof (IH is1 H1 (Forall_inv_tail Hh)) as Hr.
    destruct (srv4_run is1 lif h) as [is2 os]. destruct Hr as (R1 & R2 & R3).
    split; [exact R1|]. split; [cbn [length]; congruence|].
    intros [E|E]; [exact (H3 E)|exact (R3 E)].
Qed.

(* ---------- DHCPv6 ---------- *)
Section V6Safe.
Variable dec_pds : imsg -> list (bytes * list hint).
Variable enc_iapd : bytes * list lease -> bytes.
(* the decoder delivers well-formed hints: address and mask bytes are bytes (PrefixProofs.wf_hint) *)
Hypothesis dec_wf : forall m, Forall (fun p : bytes * list hint => Forall wf_hint (snd p)) (dec_pds m).

Variables (L P : N).   (* pool length and allocation length of the prefix plugin instances *)

Definition inst6_ok (i : inst6) : Prop :=
  match i with
  | I6Plug p => exists O n args, setup6 O n args = Some (SetOk p)
  | I6Prefix st => pinv st L P
  | I6File _ => True
  end.

Lemma setup6_ok_handler_ok p req resp : exists x, plug6_handler p req resp = Ok x.
Proof.
  destruct p; cbn [plug6_handler];
    repeat match goal with
    | |- context [match ?x with _ => _ end] => destruct x
    end; eexists; reflexivity.
Qed.

Lemma plug6_none p req r st : plug6_handler p req r = Ok (None, st) -> st = true.
Proof.
  destruct p; cbn [plug6_handler];
    repeat match goal with
    | |- context [match ?x with _ => _ end] => destruct x
    | |- context [if ?c then _ else _] => destruct c
    end; intros H; try discriminate; injection H; auto.
Qed.

Lemma inst6_call_safe now req : forall i r, inst6_ok i -> True ->
  let '(i', o) := inst6_call dec_pds enc_iapd now i req (Some r) in
  inst6_ok i' /\ match o with Ok (Some r', _) => True | Ok (None, stop) => stop = true | _ => False end.
Proof.
  intros i r Hi _. destruct i as [p|st|t]; cbn [inst6_call inst6_ok] in *.
  - split; [exact Hi|]. destruct (setup6_ok_handler_ok p req r) as ([r' stop] & E). rewrite E.
    destruct r' as [r'|]; [exact I|exact (plug6_none p req r stop E)].
  - destruct (p_inner req) as [m|]; [|split; [exact Hi|reflexivity]].
    pose proof (handle_spec now L P st (o6_get OPT_CLIENTID (i_opts m)) (dec_pds m) Hi (dec_wf m)) as H.
    destruct (prefix_handle now st (o6_get OPT_CLIENTID (i_opts m)) (dec_pds m)) as [st' o].
    destruct H as (Hinv & Hnp & _). split; [exact Hinv|].
    destruct o; [reflexivity|exact I|contradiction].
  - split; [exact I|]. unfold file_handler6.
    destruct (p_inner req) as [m|]; [|reflexivity].
    destruct (o6_get OPT_IANA (i_opts m)) as [ia|]; [|exact I].
    destruct (extract_mac req) as [mac|]; [|exact I].
    destruct (ft_get (mac_string mac) t) as [ip|]; exact I.
Qed.

Theorem srv6_step_safe is lif now oob pip pport parsed :
  Forall inst6_ok is ->
  let '(is', o) := srv6_step dec_pds enc_iapd is lif now oob pip pport parsed in
  Forall inst6_ok is' /\ length is' = length is /\ o <> O6Panic.
Proof.
  intros Hi. unfold srv6_step.
  destruct parsed as [d|]; [|split; [exact Hi|split; [reflexivity|discriminate]]].
  destruct (p_inner d) as [msg|]; [|split; [exact Hi|split; [reflexivity|discriminate]]].
  destruct (stub6 msg) as [r0|]; [|split; [exact Hi|split; [reflexivity|discriminate]]].
  pose proof (run_insts_safe (inst6_call dec_pds enc_iapd now) inst6_ok (fun _ => True) d
                (inst6_call_safe now d) is {| p_layers := []; p_inner := Some r0 |} Hi I) as H.
  destruct (run_insts (inst6_call dec_pds enc_iapd now) is d _) as [is' o]. destruct H as (H1 & H2 & H3).
  destruct o as [[rsp|]|e|]; try contradiction; [|split; [exact H1|split; [exact H2|discriminate]]].
  set (woob := if is_link_local pip then pick_if lif oob else None).
  destruct (is_relay d); [|split; [exact H1|split; [exact H2|discriminate]]].
  destruct (p_layers rsp) as [|l ls]; [|split; [exact H1|split; [exact H2|discriminate]]].
  destruct (p_inner rsp) as [rm|]; [|split; [exact H1|split; [exact H2|discriminate]]].
  destruct (p_layers d) as [|l0 ld]; [split; [exact H1|split; [exact H2|discriminate]]|].
  destruct (l_type l0 =? MT_RELAYFORW); (split; [exact H1|split; [exact H2|discriminate]]).
Qed.

Theorem srv6_history_safe lif : forall h is,
  Forall inst6_ok is ->
  let '(is', os) := srv6_run dec_pds enc_iapd is lif h in
  Forall inst6_ok is' /\ length os = length h /\ ~ In O6Panic os.
Proof.
  induction h as [|[[[[now oob] pip] pport] p] h IH]; intros is Hi; cbn [srv6_run].
  - split; [exact Hi|]. split; [reflexivity|intros []].
  - pose proof (srv6_step_safe is lif now oob pip pport p Hi) as Hs.
    destruct (srv6_step dec_pds enc_iapd is lif now oob pip pport p) as [is1 o]. destruct Hs as (H1 & _ & H3).
    pose proof (IH is1 H1) as Hr.
    destruct (srv6_run dec_pds enc_iapd is1 lif h) as [is2 os]. destruct Hr as (R1 & R2 & R3).
    split; [exact R1|]. split; [cbn [length]; congruence|].
    intros [E|E]; [exact (H3 E)|exact (R3 E)].
Qed.
End V6Safe.

(* ---------- what set-up establishes ---------- *)
Lemma load_lines_v4 O : forall lines acc l,
  Forall (fun e => ip_ser_ok (snd e) = true) acc ->
  load_lines O false lines acc = Some l -> Forall (fun e => ip_ser_ok (snd e) = true) l.
Proof.
  induction lines as [|ln lines IH]; intros acc l Ha; cbn [load_lines].
  - intros H; injection H as <-; exact Ha.
  - destruct (parse_line O false ln) as [| |k ip] eqn:E; [apply IH; exact Ha|discriminate|].
    apply IH. constructor; [|exact Ha]. cbn [snd].
    unfold parse_line in E. destruct ln as [|c rest]; [discriminate|]. destruct (c =? 35); [discriminate|].
    destruct (fields (c :: rest) []) as [|t0 [|t1 [|? ?]]]; try discriminate.
    destruct (o_parse_mac O t0); [|discriminate]. destruct (o_parse_ip O t1) as [ip'|]; [|discriminate].
    destruct (to4 ip') as [x|] eqn:E4; [|discriminate]. injection E as _ <-.
    unfold ip_ser_ok. destruct ip'; [reflexivity|]. rewrite E4. reflexivity.
Qed.

(* the table a DHCPv4 file instance loads holds IPv4 addresses only *)
Theorem file_v4_inst_ok O data l : load_file O false data = Some l -> inst4_ok (I4File (Some l)).
Proof. unfold load_file. intros H. cbn [inst4_ok ftable_v4]. exact (load_lines_v4 O _ [] l (Forall_nil _) H). Qed.

Theorem range_inst_ok s e lease st0 : wf_bytes s -> wf_bytes e ->
  range_setup s e lease [] = Ok st0 -> inst4_ok (I4Range st0).
Proof.
  intros Ws We H. destruct (RangeTheorems.setup_good s e lease st0 Ws We H) as ((Hinv & _) & _). exact Hinv.
Qed.

Theorem plug4_inst_ok O n args p : setup4 O n args = SetOk p -> inst4_ok (I4Plug p).
Proof. intros H. exists O, n, args. exact H. Qed.

Theorem prefix_inst_ok pip L P st0 :
  BaseProofs.wf_ip16 pip /\ to4 pip = None /\ L <= P /\ P <= 128 /\ P - L < 64 /\ IpcalcProofs.v pip mod IpcalcProofs.Bsz L = 0 ->
  prefix_setup pip (cidr_bytes 16 L) (Z.of_N P) = Ok st0 -> inst6_ok L P (I6Prefix st0).
Proof. intros Hg Hs. cbn [inst6_ok]. exact (proj1 (PrefixTheorems.setup_pinv pip L P st0 Hg Hs)). Qed.
