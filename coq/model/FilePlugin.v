(* FilePlugin.v — model of plugins/file: the lease-file loaders, the one package-global table
   shared by the DHCPv4 and DHCPv6 instances, the handlers, reload on a file event.
   net.ParseMAC and net.ParseIP are oracles (model/Setup.v); strings.Fields is modelled for
   ASCII white space (lease files are ASCII). *)
From Verif Require Import Base Net Msg4 Msg6 RangePlugin Plugins4 Plugins6 Setup.
Open Scope N_scope.

(* bytes.Split(data, "\n") *)
Fixpoint split_nl (s : bytes) (cur : bytes) : list bytes :=
  match s with
  | [] => [cur]
  | c :: s' => if c =? 10 then cur :: split_nl s' [] else split_nl s' (cur ++ [c])
  end.

Definition is_space (c : N) : bool := (c =? 32) || ((9 <=? c) && (c <=? 13)).

(* strings.Fields *)
Fixpoint fields (s : bytes) (cur : bytes) : list bytes :=
  match s with
  | [] => match cur with [] => [] | _ => [cur] end
  | c :: s' => if is_space c then match cur with [] => fields s' [] | _ => cur :: fields s' [] end
               else fields s' (cur ++ [c])
  end.

Inductive line_res := LSkip | LBad | LEntry (key : bytes) (ip : bytes).

Section Loader.
Variable O : oracles.

(* one line of LoadDHCPv4Records (v6 = false) / LoadDHCPv6Records (v6 = true) *)
Definition parse_line (v6 : bool) (line : bytes) : line_res :=
  match line with
  | [] => LSkip
  | c :: _ =>
      if c =? 35 then LSkip                                  (* '#' *)
      else match fields line [] with
           | [t0; t1] =>
               match o_parse_mac O t0 with
               | None => LBad
               | Some hw =>
                   match o_parse_ip O t1 with
                   | None => LBad
                   | Some ip =>
                       let ok := if v6 then (match to16 ip with Some _ => true | None => false end) &&
                                           (match to4 ip with Some _ => false | None => true end)
                                 else match to4 ip with Some _ => true | None => false end in
                       if ok then LEntry (mac_string hw) ip else LBad
                   end
               end
           | _ => LBad
           end
  end.

(* the records map: later lines overwrite earlier ones (a lookup finds the latest entry) *)
Fixpoint load_lines (v6 : bool) (lines : list bytes) (acc : list (bytes * bytes)) : option (list (bytes * bytes)) :=
  match lines with
  | [] => Some acc
  | l :: ls => match parse_line v6 l with
               | LSkip => load_lines v6 ls acc
               | LBad => None
               | LEntry k ip => load_lines v6 ls ((k, ip) :: acc)
               end
  end.

Definition load_file (v6 : bool) (data : bytes) : option (list (bytes * bytes)) :=
  load_lines v6 (split_nl data []) [].
End Loader.

Fixpoint tget (k : bytes) (t : list (bytes * bytes)) : option bytes :=
  match t with
  | [] => None
  | (k', v) :: t' => if bytes_eqb k' k then Some v else tget k t'
  end.

(* the package-global StaticRecords: None = nil map (nothing loaded yet) *)
Definition ftable := option (list (bytes * bytes)).

Definition ft_get (k : bytes) (t : ftable) : option bytes :=
  match t with Some l => tget k l | None => None end.

(* loadFromFile: the whole map is swapped only after a successful parse *)
Definition reload (O : oracles) (v6 : bool) (data : option bytes) (t : ftable) : ftable * bool :=
  match data with
  | None => (t, false)                      (* the file cannot be read *)
  | Some d => match load_file O v6 d with
              | Some l => (Some l, true)
              | None => (t, false)
              end
  end.

(* Handler4 *)
Definition file_handler4 (t : ftable) (req resp : msg4) : option msg4 * bool :=
  match ft_get (mac_string (m_chaddr req)) t with
  | None => (Some resp, false)
  | Some ip => (Some (set_yiaddr resp ip), true)
  end.

(* dhcpv6.ExtractMAC *)
Definition eui64_mac (ip : bytes) : option bytes :=
  match to16 ip with
  | None => None
  | Some _ =>
      if (nth 11 ip 0 =? 255) && (nth 12 ip 0 =? 254)
      then Some ([N.lxor (nth 8 ip 0) 2; nth 9 ip 0; nth 10 ip 0; nth 13 ip 0; nth 14 ip 0; nth 15 ip 0])
      else None
  end.

Definition duid_mac (duid : bytes) : option bytes :=
  match duid with
  | 0 :: 3 :: _ :: _ :: addr => Some addr                       (* DUID-LL *)
  | 0 :: 1 :: _ :: _ :: _ :: _ :: _ :: _ :: addr => Some addr   (* DUID-LLT *)
  | _ => None
  end.

Definition extract_mac (p : pkt6) : option bytes :=
  let from_duid := match p_inner p with
                   | None => None
                   | Some m => match o6_get OPT_CLIENTID (i_opts m) with Some d => duid_mac d | None => None end
                   end in
  match p_layers p with
  | [] => from_duid
  | ls =>
      let innermost := last ls {| l_type := 0; l_hop := 0; l_link := []; l_peer := []; l_opts := [] |} in
      match o6_get 79 (l_opts innermost) with
      | Some v => Some (skipn 2 v)
      | None => match eui64_mac (l_peer innermost) with
                | Some m => Some m
                | None => from_duid
                end
      end
  end.

(* the IA_NA added for a known client: IAID, T1 = T2 = 0, one IA Address with 3600 s lifetimes *)
Definition iana_payload (iaid ip : bytes) : bytes :=
  iaid ++ zeros 8 ++ [0; 5; 0; 24] ++ (match to16 ip with Some x => x | None => zeros 16 end) ++ [0;0;14;16] ++ [0;0;14;16].

Definition resp_add (c : N) (v : bytes) (p : pkt6) : pkt6 :=
  match p_layers p, p_inner p with
  | [], Some m => {| p_layers := []; p_inner := Some {| i_type := i_type m; i_xid := i_xid m; i_opts := o6_add c v (i_opts m) |} |}
  | l :: ls, _ => {| p_layers := {| l_type := l_type l; l_hop := l_hop l; l_link := l_link l; l_peer := l_peer l;
                                    l_opts := o6_add c v (l_opts l) |} :: ls; p_inner := p_inner p |}
  | [], None => p
  end.

(* Handler6 *)
Definition file_handler6 (t : ftable) (req resp : pkt6) : option pkt6 * bool :=
  match p_inner req with
  | None => (None, true)
  | Some m =>
      match o6_get OPT_IANA (i_opts m) with
      | None => (Some resp, false)
      | Some ia =>
          match extract_mac req with
          | None => (Some resp, false)
          | Some mac =>
              match ft_get (mac_string mac) t with
              | None => (Some resp, false)
              | Some ip => (Some (resp_add OPT_IANA (iana_payload (firstn 4 ia) ip) resp), false)
              end
          end
      end
  end.
