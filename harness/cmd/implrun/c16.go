package main

// C16: concurrent datagrams through full plugin chains via HandleMsg4/HandleMsg6 (capture hook,
// receive buffers taken from the server's own pool), with the static lease file rewritten while
// requests are in flight.  Observed replies are matched to their requests by transaction id;
// monitors restate what every one-at-a-time order guarantees, and for the lease plugins the
// observed replies are handed to the Coq model together with a witness order (the order in which
// the lock must have been taken, read off the addresses/prefixes given): the model run serially
// in that order must give exactly the observed replies.  The same phases run again under the Go
// race detector (VERIF_PHASE=conc on the -race build).

import (
	"bytes"
	"encoding/binary"
	"fmt"
	"net"
	"os"
	"path/filepath"
	"sort"
	"strings"
	"sync"
	"sync/atomic"
	"time"

	"github.com/coredhcp/coredhcp/config"
	"github.com/coredhcp/coredhcp/handler"
	"github.com/coredhcp/coredhcp/plugins"
	"github.com/coredhcp/coredhcp/plugins/dns"
	"github.com/coredhcp/coredhcp/plugins/file"
	"github.com/coredhcp/coredhcp/plugins/netmask"
	"github.com/coredhcp/coredhcp/plugins/prefix"
	rangeplugin "github.com/coredhcp/coredhcp/plugins/range"
	"github.com/coredhcp/coredhcp/plugins/router"
	"github.com/coredhcp/coredhcp/plugins/serverid"
	"github.com/coredhcp/coredhcp/server"
	"github.com/insomniacslk/dhcp/dhcpv4"
	"github.com/insomniacslk/dhcp/dhcpv6"
	"github.com/insomniacslk/dhcp/iana"
	"golang.org/x/net/ipv4"
	"golang.org/x/net/ipv6"
)

func init() {
	runners["C16"] = runC16
}

func runC16(c *Ctx) {
	c.concurrent = true
	race := os.Getenv("VERIF_PHASE") == "conc"
	c.shard = 40
	if race {
		runChain4Concurrent(c, c.Scale(2, 10), false)
		runChain6Concurrent(c, c.Scale(3, 20), false)
		runAllocConcurrent(c, c.Scale(40, 400))
		runRangeConcurrent(c, c.Scale(2, 10))
		runPrefixConcurrent(c, c.Scale(6, 60))
		runPrefixGate(c)
		runPrefixMultiIA(c, c.Scale(3, 30))
		runServeLoop4(c, c.Scale(6, 60))
		runServeLoop6(c, c.Scale(6, 60))
		runFramesConcurrent(c, c.Scale(30, 300))
		runL2Concurrent(c, c.Scale(20, 200))
		runRangeRestartBurst(c, c.Scale(10, 60))
		c.SetCases(asmCasesHdr, "AsmRun.mismatches")
		c.shard = 12
		startScenarioRange(c) // server.Start with two listeners per protocol, under the race detector
		startScenarioPD(c)
		runDualStackRefresh(c)
		c.Extra["concurrent_phase"] = "race detector: concurrent datagrams through HandleMsg4 (server_id, file with autorefresh and the lease file rewritten in flight, range, dns, router, netmask) and HandleMsg6 (server_id, prefix, dns) with receive buffers from the server's pool, plus the allocator / range / prefix concurrent phases"
		return
	}
	c.SetCases("From Verif Require Import Base RangePlugin RangeRun.", "RangeRun.mismatches")
	runChain4Concurrent(c, c.Scale(6, 60), true)
	c.SetCases("From Verif Require Import Base Net PrefixPlugin PrefixRun.", "PrefixRun.mismatches")
	runChain6Concurrent(c, c.Scale(10, 120), true)
	runAllocConcurrent(c, c.Scale(60, 1500))
	runRangeConcurrent(c, c.Scale(3, 40))
	runPrefixConcurrent(c, c.Scale(10, 200))
	runPrefixGate(c)
	runPrefixMultiIA(c, c.Scale(8, 100))
	runServeLoop4(c, c.Scale(10, 200))
	runServeLoop6(c, c.Scale(10, 200))
	runFramesConcurrent(c, c.Scale(40, 600))
	runL2Concurrent(c, c.Scale(30, 400))
	runRangeRestartBurst(c, c.Scale(15, 100))
	c.SetCases(asmCasesHdr, "AsmRun.mismatches")
	c.shard = 12
	startScenarioRange(c) // server.Start: every listener is served, by the one shared chain
	startScenarioPD(c)
	c.Extra["rule"] = "rounds of 12 simultaneous datagrams through HandleMsg4 with the chain server_id, file (autorefresh; lease file rewritten in place between two tables while requests are in flight), range (24 addresses, filled to exhaustion), dns, router, netmask: 8 dynamic clients (alternately one new client 8 times / 8 new clients), 2 static clients, 1 truncated datagram, 1 BOOTREPLY; rounds of 10 simultaneous SOLICITs with IA_PD through HandleMsg6 with the chain server_id, prefix (16 blocks, to exhaustion), dns: same / different clients plus a truncated datagram and an unsupported message type; receive buffers come from the server's pool; replies matched to requests by transaction id; per range / prefix instance one linearisation case (witness order = order of the addresses given) run on the Coq model; then the allocator, range-handler and prefix-handler concurrent phases incl. the gated interleaving; all of it again under the race detector. non-trivial = a round in which at least two datagrams were answered"
}

// ---------- DHCPv4 ----------

type c16req4 struct {
	kind   string // dyn | static | trunc | reply-op
	chaddr []byte
	xid    dhcpv4.TransactionID
	raw    []byte
}

type c16got4 struct {
	m   *dhcpv4.DHCPv4
	err error
	raw []byte
}

const c16LeaseA = "02:aa:00:00:00:01 10.8.0.1\n02:aa:00:00:00:02 10.8.0.2\n02:aa:00:00:00:03 10.8.0.3\n"
const c16LeaseB = "02:aa:00:00:00:01 10.8.1.1\n02:aa:00:00:00:02 10.8.1.2\n02:aa:00:00:00:03 10.8.1.3\n"

var c16XID uint32

func runChain4Concurrent(c *Ctx, ranges int, witness bool) {
	wd := workDir()
	leaseFile := filepath.Join(wd, "c16-leases.txt")
	if err := os.WriteFile(leaseFile, []byte(c16LeaseA), 0o644); err != nil {
		c.Violate("harness-setup", err.Error(), nil)
		return
	}
	mk := func(name string, f func(args ...string) (handler.Handler4, error), args ...string) handler.Handler4 {
		h, err := f(args...)
		if err != nil || h == nil {
			c.Violate("harness-setup", fmt.Sprintf("C16 chain: %s%v: %v", name, args, err), nil)
			return nil
		}
		return h
	}
	hSid := mk("server_id", serverid.Plugin.Setup4, "10.7.0.254")
	hFile := mk("file", file.Plugin.Setup4, leaseFile, "autorefresh")
	hDNS := mk("dns", dns.Plugin.Setup4, "1.1.1.1")
	hRouter := mk("router", router.Plugin.Setup4, "10.7.0.254")
	hMask := mk("netmask", netmask.Plugin.Setup4, "255.255.255.0")
	if hSid == nil || hFile == nil || hDNS == nil || hRouter == nil || hMask == nil {
		return
	}
	// the lease file is rewritten in place (same length, one write) for as long as requests are in flight
	var stopRefresh int32
	var refreshes int64
	var rwg sync.WaitGroup
	rwg.Add(1)
	go func() {
		defer rwg.Done()
		tables := []string{c16LeaseB, c16LeaseA}
		for i := 0; atomic.LoadInt32(&stopRefresh) == 0; i++ {
			f, err := os.OpenFile(leaseFile, os.O_WRONLY, 0)
			if err == nil {
				f.WriteAt([]byte(tables[i%2]), 0)
				f.Close()
				atomic.AddInt64(&refreshes, 1)
			}
			time.Sleep(700 * time.Microsecond)
		}
	}()
	defer func() {
		atomic.StoreInt32(&stopRefresh, 1)
		rwg.Wait()
		c.Dist["lease-file-rewrites-in-flight"] += int(atomic.LoadInt64(&refreshes))
	}()
	staticA := map[string]string{"02:aa:00:00:00:01": "10.8.0.1", "02:aa:00:00:00:02": "10.8.0.2", "02:aa:00:00:00:03": "10.8.0.3"}
	staticB := map[string]string{"02:aa:00:00:00:01": "10.8.1.1", "02:aa:00:00:00:02": "10.8.1.2", "02:aa:00:00:00:03": "10.8.1.3"}

	G := 8
	size := 24
	s4, e4 := net.ParseIP("10.7.0.1").To4(), net.ParseIP("10.7.0.24").To4()
	start, end := binary.BigEndian.Uint32(s4), binary.BigEndian.Uint32(e4)
	for ri := 0; ri < ranges; ri++ {
		dbPath := filepath.Join(wd, fmt.Sprintf("c16-leases-%d.sqlite3", ri))
		os.Remove(dbPath)
		hRange, err := rangeplugin.Plugin.Setup4(dbPath, "10.7.0.1", "10.7.0.24", "1h")
		if err != nil {
			c.Violate("harness-setup", "C16 range: "+err.Error(), nil)
			return
		}
		var mu sync.Mutex
		got := map[dhcpv4.TransactionID][]c16got4{}
		var stray []string
		sink := func(payload []byte, cm *ipv4.ControlMessage, dst net.Addr) {
			m, err := dhcpv4.FromBytes(payload)
			mu.Lock()
			defer mu.Unlock()
			if err != nil {
				stray = append(stray, fmt.Sprintf("unparseable reply %x", payload))
				return
			}
			got[m.TransactionID] = append(got[m.TransactionID], c16got4{m: m, raw: payload})
		}
		l := server.NewVerifListener4([]handler.Handler4{hSid, hFile, hRange, hDNS, hRouter, hMask}, net.Interface{}, sink)
		bound := map[string]string{}
		owner := map[string]string{}
		var hist []string
		var wOps, wOuts []string
		for round, over := 0, 0; over < 3 && round < 64; round++ {
			if len(bound) >= size {
				over++ // a few more rounds on the exhausted range
			}
			same := round%2 == 0
			reqs := []c16req4{}
			add := func(kind string, chaddr []byte, mt dhcpv4.MessageType) {
				m := mkReq4(chaddr, "", mt)
				m.SetBroadcast() // answered through the UDP socket (the layer-2 unicast path needs a real interface)
				binary.BigEndian.PutUint32(m.TransactionID[:], atomic.AddUint32(&c16XID, 1))
				if kind == "reply-op" {
					m.OpCode = dhcpv4.OpcodeBootReply
				}
				raw := m.ToBytes()
				if kind == "trunc" {
					raw = raw[:100+round%100]
				}
				reqs = append(reqs, c16req4{kind, chaddr, m.TransactionID, raw})
			}
			for g := 0; g < G; g++ {
				mt := dhcpv4.MessageTypeDiscover
				if g%2 == 1 {
					mt = dhcpv4.MessageTypeRequest
				}
				if same || len(bound)+g >= size+2 {
					add("dyn", []byte{2, byte(ri), byte(round), 0, 0, 0}, mt)
				} else {
					add("dyn", []byte{2, byte(ri), byte(round), 0, 0, byte(g)}, mt)
				}
			}
			add("static", []byte{2, 0xaa, 0, 0, 0, byte(1 + round%3)}, dhcpv4.MessageTypeDiscover)
			add("static", []byte{2, 0xaa, 0, 0, 0, byte(1 + (round+1)%3)}, dhcpv4.MessageTypeRequest)
			add("trunc", []byte{2, 0xbb, 0, 0, 0, 1}, dhcpv4.MessageTypeDiscover)
			add("reply-op", []byte{2, 0xbb, 0, 0, 0, 2}, dhcpv4.MessageTypeDiscover)
			mu.Lock()
			got = map[dhcpv4.TransactionID][]c16got4{}
			stray = nil
			mu.Unlock()
			var wg sync.WaitGroup
			startCh := make(chan struct{})
			panics := make([]string, len(reqs))
			t0 := time.Now()
			for i := range reqs {
				wg.Add(1)
				go func(i int) {
					defer wg.Done()
					defer func() {
						if r := recover(); r != nil {
							panics[i] = fmt.Sprint(r)
						}
					}()
					<-startCh
					l.Handle(reqs[i].raw, &ipv4.ControlMessage{IfIndex: 0}, &net.UDPAddr{IP: net.IPv4(10, 7, 0, 200), Port: 68})
				}(i)
			}
			close(startCh)
			wg.Wait()
			t1 := time.Now()
			c.Evals++
			mu.Lock()
			line := []string{}
			type dynRes struct {
				i  int
				y  net.IP
				lt []byte
			}
			var answered []dynRes
			var dropped []int
			nrep := 0
			known := map[dhcpv4.TransactionID]bool{}
			for _, rq := range reqs {
				known[rq.xid] = true
			}
			input := func() interface{} {
				return map[string]interface{}{"chain": "server_id file(autorefresh) range(10.7.0.1-10.7.0.24) dns router netmask", "rounds": append(append([]string{}, hist...), strings.Join(line, " | "))}
			}
			for x, gs := range got {
				if !known[x] {
					c.vio("C16", "reply-without-request", fmt.Sprintf("a reply with transaction id %x was sent although no datagram of the round carries it (receive buffer reused while being parsed?)", x[:]), input())
				}
				_ = gs
			}
			for _, s := range stray {
				c.vio("C16", "unparseable-reply", s, input())
			}
			for i, rq := range reqs {
				gs := got[rq.xid]
				desc := fmt.Sprintf("%s %x ->", rq.kind, rq.chaddr)
				if panics[i] != "" {
					c.vio("C16", "panic", fmt.Sprintf("HandleMsg4 panics under concurrent load: %s", panics[i]), input())
				}
				if len(gs) > 1 {
					c.vio("C16", "two-replies", fmt.Sprintf("%d replies carry the transaction id of one datagram (%s %x)", len(gs), rq.kind, rq.chaddr), input())
				}
				if len(gs) == 0 {
					line = append(line, desc+" none")
					switch rq.kind {
					case "static":
						c.vio("C16", "static-client-unanswered", fmt.Sprintf("static client %x got no reply while the lease file was being refreshed", rq.chaddr), input())
					case "dyn":
						dropped = append(dropped, i)
					}
					continue
				}
				nrep++
				m := gs[0].m
				y := m.YourIPAddr.To4()
				line = append(line, fmt.Sprintf("%s %s", desc, y))
				if rq.kind == "trunc" || rq.kind == "reply-op" {
					c.vio("C16", "reply-to-non-request", fmt.Sprintf("a %s datagram was answered", rq.kind), input())
					continue
				}
				if !bytes.Equal(m.ClientHWAddr, rq.chaddr) {
					c.vio("C16", "reply-mixes-datagrams", fmt.Sprintf("the reply with the transaction id of client %x carries hardware address %x", rq.chaddr, []byte(m.ClientHWAddr)), input())
					continue
				}
				if sid := m.ServerIdentifier(); sid == nil || !sid.Equal(net.IPv4(10, 7, 0, 254)) {
					c.vio("C16", "reply-lost-option", fmt.Sprintf("reply to %x carries server identifier %v", rq.chaddr, sid), input())
				}
				switch rq.kind {
				case "static":
					ms := net.HardwareAddr(rq.chaddr).String()
					if y.String() != staticA[ms] && y.String() != staticB[ms] {
						c.vio("C16", "static-mapping-broken", fmt.Sprintf("static client %s was given %s, the lease file says %s (or %s after the refresh)", ms, y, staticA[ms], staticB[ms]), input())
					}
				case "dyn":
					answered = append(answered, dynRes{i, y, m.Options.Get(dhcpv4.OptionIPAddressLeaseTime)})
					if d := m.DNS(); len(d) != 1 || !d[0].Equal(net.IPv4(1, 1, 1, 1)) {
						c.vio("C16", "reply-lost-option", fmt.Sprintf("reply to %x carries DNS servers %v", rq.chaddr, d), input())
					}
					k := string(rq.chaddr)
					ys := y.String()
					if yv := binary.BigEndian.Uint32(y); y == nil || yv < start || yv > end {
						c.vio("C16", "lease-out-of-range", fmt.Sprintf("client %x given %s", rq.chaddr, ys), input())
					}
					if prev, ok := bound[k]; ok && prev != ys {
						c.vio("C16", "lease-not-sticky", fmt.Sprintf("client %x was given %s and %s (requests in flight at the same moment)", rq.chaddr, prev, ys), input())
					}
					if o, ok := owner[ys]; ok && o != k {
						c.vio("C16", "address-bound-twice", fmt.Sprintf("%s given to %x while bound to %x", ys, rq.chaddr, []byte(o)), input())
					}
					bound[k] = ys
					owner[ys] = k
				}
			}
			mu.Unlock()
			for _, i := range dropped {
				if _, ok := bound[string(reqs[i].chaddr)]; ok {
					c.vio("C16", "bound-client-dropped", fmt.Sprintf("client %x holds %s but one of its simultaneous requests got no reply", reqs[i].chaddr, bound[string(reqs[i].chaddr)]), input())
				}
			}
			hist = append(hist, fmt.Sprintf("round %d: %s", round, strings.Join(line, " | ")))
			if len(hist) > 12 {
				hist = hist[len(hist)-12:]
			}
			c.Eval(fmt.Sprintf("c16v4/%d/%d/%v", ri, round, line), nrep >= 2)
			// witness order: the order in which the addresses were handed out, unanswered requests last
			sort.SliceStable(answered, func(a, b int) bool {
				ya, yb := binary.BigEndian.Uint32(answered[a].y), binary.BigEndian.Uint32(answered[b].y)
				if ya != yb {
					return ya < yb
				}
				return answered[a].i < answered[b].i
			})
			for _, a := range answered {
				wOps = append(wOps, fmt.Sprintf("RReq %s %s %s %s", vZ(t0.UnixNano()), vZ(t1.UnixNano()), vBytes(reqs[a.i].chaddr), vStr("")))
				wOuts = append(wOuts, fmt.Sprintf("ROut %s %s None", vBytes(a.y), vBytes(a.lt)))
			}
			for _, i := range dropped {
				wOps = append(wOps, fmt.Sprintf("RReq %s %s %s %s", vZ(t0.UnixNano()), vZ(t1.UnixNano()), vBytes(reqs[i].chaddr), vStr("")))
				wOuts = append(wOuts, "RDrop")
			}
		}
		l.Close()
		rows, _ := readLeases(dbPath)
		final := map[string]interface{}{"last rounds": hist}
		if len(rows) != len(bound) {
			c.vio("C16", "db-binding-count", fmt.Sprintf("leases4 has %d rows for %d clients served under concurrent load", len(rows), len(bound)), final)
		}
		if len(bound) != size {
			c.vio("C16", "capacity", fmt.Sprintf("%d clients were served from a range of %d addresses under concurrent load (every one-at-a-time order serves exactly %d)", len(bound), size, size), final)
		}
		if witness {
			c.AddCase(fmt.Sprintf("CR %s %s %s %s %s", vBytes(s4), vBytes(e4), vZ(int64(time.Hour)), vList(wOps), vList(wOuts)))
		}
		if ri == 0 {
			c.Sample(map[string]interface{}{"chain": "v4", "last rounds": hist})
		}
		os.Remove(dbPath)
	}
	c.Dist["v4-chain-instances"] += ranges
}

// runDualStackRefresh: the file plugin set up for both protocols with autorefresh, both lease
// files rewritten again and again while static clients are being answered.  Only the race detector
// judges this phase (which table is served in a dual-stack set-up is C10's known finding F10); it
// runs last because it replaces the table of the DHCPv4 chain above.
func runDualStackRefresh(c *Ctx) {
	wd := workDir()
	f4 := filepath.Join(wd, "c16-dual4.txt")
	f6 := filepath.Join(wd, "c16-dual6.txt")
	t4 := "02:aa:00:00:00:01 10.8.0.1\n"
	t6 := "02:aa:00:00:00:01 2001:db8::1\n"
	os.WriteFile(f4, []byte(t4), 0o644)
	os.WriteFile(f6, []byte(t6), 0o644)
	h4, err4 := file.Plugin.Setup4(f4, "autorefresh")
	_, err6 := file.Plugin.Setup6(f6, "autorefresh")
	if err4 != nil || err6 != nil {
		c.Violate("harness-setup", fmt.Sprintf("dual-stack file plugin: %v %v", err4, err6), nil)
		return
	}
	var wg sync.WaitGroup
	var stop int32
	for g := 0; g < 4; g++ {
		wg.Add(1)
		go func() {
			defer wg.Done()
			for atomic.LoadInt32(&stop) == 0 {
				req := mkReq4([]byte{2, 0xaa, 0, 0, 0, 1}, "", dhcpv4.MessageTypeDiscover)
				resp, _ := dhcpv4.New()
				callH4(h4, req, resp)
			}
		}()
	}
	n := c.Scale(150, 1500)
	for i := 0; i < n; i++ {
		for _, fw := range []struct{ p, t string }{{f4, t4}, {f6, t6}} {
			if f, err := os.OpenFile(fw.p, os.O_WRONLY, 0); err == nil {
				f.WriteAt([]byte(fw.t), 0)
				f.Close()
			}
		}
		time.Sleep(500 * time.Microsecond)
	}
	atomic.StoreInt32(&stop, 1)
	wg.Wait()
	time.Sleep(20 * time.Millisecond) // let the watchers drain their events
	c.Dist["dual-stack-refresh-rewrites"] = 2 * n
}

// ---------- DHCPv6 ----------

type c16req6 struct {
	kind string // pd | trunc | badtype
	duid []byte
	tid  dhcpv6.TransactionID
	raw  []byte
}

var c16TID uint32

func runChain6Concurrent(c *Ctx, pools int, witness bool) {
	hSid, err := serverid.Plugin.Setup6("LL", "00:de:ad:be:ef:00")
	hDNS, err2 := dns.Plugin.Setup6("2001:4860:4860::8888")
	if err != nil || err2 != nil {
		c.Violate("harness-setup", fmt.Sprintf("C16 v6 chain: %v %v", err, err2), nil)
		return
	}
	_, pool, _ := net.ParseCIDR("2001:db8:0:100::/60")
	nblocks := 16
	G := 8
	for pi := 0; pi < pools; pi++ {
		hPfx, err := prefix.Plugin.Setup6("2001:db8:0:100::/60", "64")
		if err != nil {
			c.Violate("harness-setup", "C16 prefix: "+err.Error(), nil)
			return
		}
		var mu sync.Mutex
		got := map[dhcpv6.TransactionID][]*dhcpv6.Message{}
		var stray []string
		sink := func(payload []byte, cm *ipv6.ControlMessage, dst net.Addr) {
			d, err := dhcpv6.FromBytes(payload)
			mu.Lock()
			defer mu.Unlock()
			if err != nil {
				stray = append(stray, fmt.Sprintf("unparseable reply %x", payload))
				return
			}
			m, err := d.GetInnerMessage()
			if err != nil {
				stray = append(stray, "reply without inner message")
				return
			}
			got[m.TransactionID] = append(got[m.TransactionID], m)
		}
		l := server.NewVerifListener6([]handler.Handler6{hSid, hPfx, hDNS}, net.Interface{}, sink)
		held := map[string]string{}  // duid -> prefix
		owner := map[string]string{} // prefix -> duid
		var hist []string
		var wOps, wOuts []string
		for round, over := 0, 0; over < 3 && round < 40; round++ {
			if len(held) >= nblocks {
				over++
			}
			same := round%2 == 0
			reqs := []c16req6{}
			add := func(kind string, mac net.HardwareAddr) {
				mt := dhcpv6.MessageTypeSolicit
				if kind == "badtype" {
					mt = dhcpv6.MessageTypeReconfigure
				}
				m := &dhcpv6.Message{MessageType: mt}
				x := atomic.AddUint32(&c16TID, 1)
				m.TransactionID = dhcpv6.TransactionID{byte(x >> 16), byte(x >> 8), byte(x)}
				duid := &dhcpv6.DUIDLL{HWType: iana.HWTypeEthernet, LinkLayerAddr: mac}
				m.AddOption(dhcpv6.OptClientID(duid))
				m.AddOption(&dhcpv6.OptionGeneric{OptionCode: dhcpv6.OptionIAPD, OptionData: iapdPayload(pdIA{iaid: [4]byte{0, 0, 0, 1}})})
				raw := m.ToBytes()
				if kind == "trunc" {
					raw = raw[:3+round%8]
				}
				reqs = append(reqs, c16req6{kind, duid.ToBytes(), m.TransactionID, raw})
			}
			for g := 0; g < G; g++ {
				if same || len(held)+g >= nblocks+2 {
					add("pd", net.HardwareAddr{2, 6, byte(pi), byte(round), 0, 0})
				} else {
					add("pd", net.HardwareAddr{2, 6, byte(pi), byte(round), 0, byte(g)})
				}
			}
			add("trunc", net.HardwareAddr{2, 6, 0xbb, 0, 0, 1})
			add("badtype", net.HardwareAddr{2, 6, 0xbb, 0, 0, 2})
			mu.Lock()
			got = map[dhcpv6.TransactionID][]*dhcpv6.Message{}
			stray = nil
			mu.Unlock()
			var wg sync.WaitGroup
			startCh := make(chan struct{})
			panics := make([]string, len(reqs))
			now := time.Now()
			for i := range reqs {
				wg.Add(1)
				go func(i int) {
					defer wg.Done()
					defer func() {
						if r := recover(); r != nil {
							panics[i] = fmt.Sprint(r)
						}
					}()
					<-startCh
					l.Handle(reqs[i].raw, &ipv6.ControlMessage{}, &net.UDPAddr{IP: net.ParseIP("fe80::1"), Port: 546})
				}(i)
			}
			close(startCh)
			wg.Wait()
			c.Evals++
			mu.Lock()
			line := []string{}
			input := func() interface{} {
				return map[string]interface{}{"chain": "server_id prefix(2001:db8:0:100::/60 64) dns", "rounds": append(append([]string{}, hist...), strings.Join(line, " | "))}
			}
			known := map[dhcpv6.TransactionID]bool{}
			for _, rq := range reqs {
				known[rq.tid] = true
			}
			for x := range got {
				if !known[x] {
					c.vio("C16", "reply-without-request", fmt.Sprintf("a DHCPv6 reply with transaction id %x was sent although no datagram of the round carries it", x[:]), input())
				}
			}
			for _, s := range stray {
				c.vio("C16", "unparseable-reply", s, input())
			}
			type pdRes struct {
				i   int
				ip  net.IP
				msk net.IPMask
			}
			var answered []pdRes
			var noPrefix []int
			nrep := 0
			for i, rq := range reqs {
				ms := got[rq.tid]
				if panics[i] != "" {
					c.vio("C16", "panic", fmt.Sprintf("HandleMsg6 panics under concurrent load: %s", panics[i]), input())
				}
				if len(ms) > 1 {
					c.vio("C16", "two-replies", fmt.Sprintf("%d replies carry the transaction id of one datagram (%s)", len(ms), rq.kind), input())
				}
				if len(ms) == 0 {
					line = append(line, fmt.Sprintf("%s %x -> none", rq.kind, rq.duid[4:]))
					if rq.kind == "pd" {
						c.vio("C16", "solicit-unanswered", fmt.Sprintf("the SOLICIT of client %x got no reply under concurrent load", rq.duid), input())
					}
					continue
				}
				nrep++
				m := ms[0]
				if rq.kind != "pd" {
					c.vio("C16", "reply-to-non-request", fmt.Sprintf("a %s datagram was answered", rq.kind), input())
					continue
				}
				if cid := m.Options.ClientID(); cid == nil || !bytes.Equal(cid.ToBytes(), rq.duid) {
					c.vio("C16", "reply-mixes-datagrams", fmt.Sprintf("the reply with the transaction id of client %x carries client identifier %v", rq.duid, cid), input())
					continue
				}
				if sid := m.Options.ServerID(); sid == nil {
					c.vio("C16", "reply-lost-option", "reply without server identifier", input())
				}
				var pfx []*net.IPNet
				ias := m.Options.IAPD()
				for _, ia := range ias {
					for _, p := range ia.Options.Prefixes() {
						pfx = append(pfx, p.Prefix)
					}
				}
				if len(ias) != 1 {
					c.vio("C16", "reply-shape", fmt.Sprintf("reply to one IA_PD carries %d IA_PD options", len(ias)), input())
					continue
				}
				k := string(rq.duid)
				switch len(pfx) {
				case 0:
					line = append(line, fmt.Sprintf("pd %x -> no-prefix", rq.duid[4:]))
					noPrefix = append(noPrefix, i)
					if p, ok := held[k]; ok {
						c.vio("C16", "holder-refused", fmt.Sprintf("client %x holds %s but a simultaneous retransmission was told no prefix is available", rq.duid, p), input())
					}
				case 1:
					ps := pfx[0].String()
					line = append(line, fmt.Sprintf("pd %x -> %s", rq.duid[4:], ps))
					answered = append(answered, pdRes{i, pfx[0].IP.To16(), pfx[0].Mask})
					if !pool.Contains(pfx[0].IP) {
						c.vio("C16", "prefix-outside-pool", ps, input())
					}
					if prev, ok := held[k]; ok && prev != ps {
						c.vio("C16", "retransmission-consumes-block", fmt.Sprintf("client %x was delegated %s and %s for simultaneous copies of one hint-less request", rq.duid, prev, ps), input())
					}
					if o, ok := owner[ps]; ok && o != k {
						c.vio("C16", "prefix-delegated-twice", fmt.Sprintf("%s delegated to %x while delegated to %x", ps, rq.duid, []byte(o)), input())
					}
					held[k] = ps
					owner[ps] = k
				default:
					line = append(line, fmt.Sprintf("pd %x -> %v", rq.duid[4:], pfx))
					c.vio("C16", "retransmission-consumes-block", fmt.Sprintf("one hint-less IA_PD of client %x was answered with %d prefixes %v", rq.duid, len(pfx), pfx), input())
				}
			}
			mu.Unlock()
			hist = append(hist, fmt.Sprintf("round %d: %s", round, strings.Join(line, " | ")))
			if len(hist) > 12 {
				hist = hist[len(hist)-12:]
			}
			c.Eval(fmt.Sprintf("c16v6/%d/%d/%v", pi, round, line), nrep >= 2)
			sort.SliceStable(answered, func(a, b int) bool {
				if cmp := bytes.Compare(answered[a].ip, answered[b].ip); cmp != 0 {
					return cmp < 0
				}
				return answered[a].i < answered[b].i
			})
			iaid := vBytes([]byte{0, 0, 0, 1})
			for _, a := range answered {
				wOps = append(wOps, fmt.Sprintf("PReq %s (Some %s) [(%s, [])]", vZ(now.UnixNano()), vBytes(reqs[a.i].duid), iaid))
				wOuts = append(wOuts, fmt.Sprintf("OResp [(%s, [(%s, %s)])]", iaid, vBytes(a.ip), vBytes(a.msk)))
			}
			for _, i := range noPrefix {
				wOps = append(wOps, fmt.Sprintf("PReq %s (Some %s) [(%s, [])]", vZ(now.UnixNano()), vBytes(reqs[i].duid), iaid))
				wOuts = append(wOuts, fmt.Sprintf("OResp [(%s, [])]", iaid))
			}
		}
		l.Close()
		if len(held) != nblocks {
			c.vio("C16", "capacity", fmt.Sprintf("%d clients hold a prefix from a pool of %d blocks after concurrent load (every one-at-a-time order serves exactly %d)", len(held), nblocks, nblocks), map[string]interface{}{"last rounds": hist})
		}
		if witness {
			c.AddCase(fmt.Sprintf("CPfx %s %s %s %s %s", vBytes(pool.IP.To16()), vBytes(pool.Mask), vZ(64), vList(wOps), vList(wOuts)))
		}
		if pi == 0 {
			c.Sample(map[string]interface{}{"chain": "v6", "last rounds": hist})
		}
	}
	c.Dist["v6-chain-instances"] += pools
}

// runL2Concurrent: datagrams of address-less clients without the broadcast flag, received on the
// loopback interface, handled at the same moment: each takes the layer-2 path (interface look-up,
// then sendEthernet, which refuses the loopback interface for want of a hardware address).
func runL2Concurrent(c *Ctx, rounds int) {
	lo, err := net.InterfaceByName("lo")
	if err != nil {
		return
	}
	installHook()
	registerSynthetic()
	conf := &config.Config{Server4: &config.ServerConfig{Plugins: []config.PluginConfig{{Name: "vtest", Args: []string{"p"}}}}}
	h4, _, err := plugins.LoadPlugins(conf)
	if err != nil {
		return
	}
	l := server.NewVerifListener4(h4, net.Interface{}, func(p []byte, cm *ipv4.ControlMessage, dst net.Addr) {})
	defer l.Close()
	const G = 8
	for r := 0; r < rounds; r++ {
		var start int32
		var wg sync.WaitGroup
		pan := make([]string, G)
		for g := 0; g < G; g++ {
			wg.Add(1)
			go func(g int) {
				defer wg.Done()
				defer func() {
					if x := recover(); x != nil {
						pan[g] = fmt.Sprint(x)
					}
				}()
				s := req4spec{op: 1, mtype: []byte{1}, chaddr: []byte{2, 0x16, 0, byte(r), 0, byte(g)}, xid: uint32(0x16000000 + r*16 + g)}
				raw := buildReq4(s)
				for atomic.LoadInt32(&start) == 0 {
				}
				l.Handle(raw, &ipv4.ControlMessage{IfIndex: lo.Index}, &net.UDPAddr{IP: net.IPv4zero, Port: 68})
			}(g)
		}
		atomic.StoreInt32(&start, 1)
		wg.Wait()
		c.Evals++
		for g := 0; g < G; g++ {
			if pan[g] != "" {
				c.vio("C16", "concurrent-l2-panic", fmt.Sprintf("%d datagrams taking the layer-2 reply path at the same moment: panic: %s", G, pan[g]), map[string]interface{}{"round": r})
			}
		}
	}
	c.Count("l2-concurrent:rounds")
}

// runRangeRestartBurst: the range plugin restarts on a database with stored leases and the first
// datagrams - from clients it has never seen - arrive at once, immediately: none of them may be
// given an address the database assigns to somebody else.
func runRangeRestartBurst(c *Ctx, trials int) {
	wd := workDir()
	for t := 0; t < trials; t++ {
		dbPath := filepath.Join(wd, fmt.Sprintf("leases-burst-%d-%d.sqlite3", os.Getpid(), t))
		os.Remove(dbPath)
		h, err := rangeplugin.Plugin.Setup4(dbPath, "10.6.0.1", "10.6.0.12", "1h")
		if err != nil {
			c.Violate("harness-setup", "restart burst: "+err.Error(), nil)
			return
		}
		bound := map[string]string{}
		for k := 0; k < 4; k++ {
			ch := []byte{2, 0x17, byte(t), 0, 0, byte(k)}
			resp, _ := dhcpv4.New()
			out, _, _, _ := callH4(h, mkReq4(ch, "", dhcpv4.MessageTypeDiscover), resp)
			if out != nil {
				bound[out.YourIPAddr.String()] = fmt.Sprintf("%x", ch)
			}
		}
		h2, err := rangeplugin.Plugin.Setup4(dbPath, "10.6.0.1", "10.6.0.12", "1h")
		if err != nil {
			c.vio("C03", "restart-fails", "restart on the database the plugin wrote fails: "+err.Error(), nil)
			os.Remove(dbPath)
			continue
		}
		const G = 6
		var wg sync.WaitGroup
		got := make([]string, G)
		for g := 0; g < G; g++ { // no barrier: the point is to be early
			wg.Add(1)
			go func(g int) {
				defer wg.Done()
				ch := []byte{2, 0x18, byte(t), 0, 0, byte(g)}
				resp, _ := dhcpv4.New()
				out, _, _, _ := callH4(h2, mkReq4(ch, "", dhcpv4.MessageTypeDiscover), resp)
				if out != nil {
					got[g] = out.YourIPAddr.String()
				}
			}(g)
		}
		wg.Wait()
		c.Evals++
		seen := map[string]int{}
		for g, ip := range got {
			if ip == "" {
				continue
			}
			if owner, ok := bound[ip]; ok {
				c.vio("C02", "address-shared", fmt.Sprintf("right after a restart on a database with 4 stored leases a new client was given %s, which the database assigns to client %s", ip, owner), map[string]interface{}{"trial": t})
			}
			if prev, ok := seen[ip]; ok {
				c.vio("C02", "address-shared", fmt.Sprintf("right after a restart new clients %d and %d were both given %s", prev, g, ip), map[string]interface{}{"trial": t})
			}
			seen[ip] = g
		}
		os.Remove(dbPath)
	}
	c.Count("range-restart-burst:trials")
}
