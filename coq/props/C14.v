(* C14 — Replies carry this server's identifier; traffic for other servers is dropped.
   plug6_handler (P6ServerID own) / plug4_handler (PServerID sid) are the models of
   plugins/serverid Handler6 / Handler4 for a configured DUID (as bytes) / IPv4 address; the DHCPv6
   handler looks at the innermost message of the packet, whatever the relay depth.  DUID
   equality is byte equality of the encoded DUIDs. *)
From Verif Require Import Base BaseProofs Net NetProofs Msg4 Msg6 Chain ChainProofs Server4 Server4Proofs Server6 Server6Proofs Plugins4 Plugins6 Setup PluginRun PluginProofs PluginSpecs PluginExamples.
Open Scope N_scope.

Theorem sid6_table :
  forall (own : bytes) (req resp : pkt6) (m : imsg),
  p_inner req = Some m ->
  (sid6_discard own m -> plug6_handler (P6ServerID own) req resp = Ok (None, true)) /\
  (~ sid6_discard own m ->
  plug6_handler (P6ServerID own) req resp =
  Ok (Some (resp_update OPT_SERVERID own resp), false)).
Proof. exact (@PluginSpecs.sid6_table). Qed.
Print Assumptions sid6_table.

Theorem sid6_no_inner :
  forall (own : bytes) (req resp : pkt6),
  p_inner req = None -> plug6_handler (P6ServerID own) req resp = Ok (None, true).
Proof. exact (@PluginSpecs.sid6_no_inner). Qed.
Print Assumptions sid6_no_inner.

Theorem sid6_reply_carries_own :
  forall (own : bytes) (resp : pkt6) (m : imsg),
  p_layers resp = [] ->
  p_inner resp = Some m ->
  match p_inner (resp_update OPT_SERVERID own resp) with
  | Some m' =>
  o6_get OPT_SERVERID (i_opts m') = Some own /\
  (o6_get OPT_SERVERID (i_opts m) = None -> o6_all OPT_SERVERID (i_opts m') = [own]) /\
  i_type m' = i_type m /\ i_xid m' = i_xid m
  | None => False
  end.
Proof. exact (@PluginSpecs.sid6_reply_carries_own). Qed.
Print Assumptions sid6_reply_carries_own.

Theorem sid4_drop_iff_other :
  forall (sid : bytes) (req resp : msg4),
  m_op req = 1 ->
  (names_other sid (m_siaddr req) \/ names_other sid (opt54_of req) ->
  plug4_handler (PServerID sid) req resp = Ok (None, true)) /\
  (~ (names_other sid (m_siaddr req) \/ names_other sid (opt54_of req)) ->
  plug4_handler (PServerID sid) req resp =
  Ok
  (Some
  (upd_opt (set_siaddr resp (firstn 4 (sid ++ [0; 0; 0; 0]))) 54
  match to4 sid with
  | Some x => x
  | None => []
  end), false)).
Proof. exact (@PluginSpecs.sid4_drop_iff_other). Qed.
Print Assumptions sid4_drop_iff_other.

Theorem sid4_reply_carries_own :
  forall (sid : list N) (resp : msg4),
  length sid = 4%nat ->
  to4 sid = Some sid ->
  let r :=
  upd_opt (set_siaddr resp (firstn 4 (sid ++ [0; 0; 0; 0]))) 54
  match to4 sid with
  | Some x => x
  | None => []
  end in
  m_siaddr r = sid /\ opt_get 54 (m_opts r) = Some sid /\ count_code 54 (m_opts r) = 1%nat.
Proof. exact (@PluginSpecs.sid4_reply_carries_own). Qed.
Print Assumptions sid4_reply_carries_own.

Theorem sid4_not_request :
  forall (sid : bytes) (req resp : msg4),
  m_op req <> 1 -> plug4_handler (PServerID sid) req resp = Ok (Some resp, false).
Proof. exact (@PluginSpecs.sid4_not_request). Qed.
Print Assumptions sid4_not_request.

Theorem setup4_serverid_v4 :
  forall (O0 : oracles) (args : list bytes) (sid : bytes),
  setup4 O0 NServerID args = SetOk (PServerID sid) -> length sid = 4%nat.
Proof. exact (@PluginProofs.setup4_serverid_v4). Qed.
Print Assumptions setup4_serverid_v4.


(* Non-vacuity (proofs/PluginExamples.v): accepted configurations exist *)
Example hypotheses_satisfiable :
  (setup4 (oracles_of ex_tables) NStaticRoute [[49;48;46;48;46;48;46;48;47;56;44;49;48;46;48;46;48;46;49]] =
    SetOk (PStaticRoute [{| rt_dest := [10;0;0;0]; rt_mask := [255;0;0;0]; rt_router := v4in6_prefix ++ [10;0;0;1] |}]) /\
   enc_routes [{| rt_dest := [10;0;0;0]; rt_mask := [255;0;0;0]; rt_router := v4in6_prefix ++ [10;0;0;1] |}] = Ok [8;10;10;0;0;1]) /\
  setup6 (oracles_of ex_tables) NServerID [[76;76]; [48;48;58;49;49;58;50;50;58;51;51;58;52;52;58;53;53]] =
    Some (SetOk (P6ServerID [0;3;0;1;0;17;34;51;68;85])) /\
  setup4 (oracles_of ex_tables) NServerID [[49;48;46;48;46;48;46;49]] = SetOk (PServerID [10;0;0;1]).
Proof. exact (conj ex_staticroute (conj ex_serverid6 ex_serverid4)). Qed.
