package main

// go2v skeleton: for every function that touches a piece of lock-protected shared state, the
// ordered tree of lock operations, accesses to the guarded locations, calls and returns, read
// off the AST.  The Coq side (lib/Skel.v) computes from it that every access happens under the
// right kind of lock, that every path releases the lock, and that locks are taken in rank order.

import (
	"bytes"
	"fmt"
	"go/ast"
	"go/parser"
	"go/printer"
	"go/token"
	"os"
	"path/filepath"
	"sort"
	"strings"
)

type skelTarget struct {
	file    string   // relative to the repository root
	recv    string   // receiver type name ("" for a plain function)
	name    string   // function name
	mutex   string   // the expression the lock methods are called on (e.g. "a.l", "p", "recLock")
	guarded []string // expressions naming the guarded locations
	rank    int      // lock rank: a function may only call functions of a higher rank while holding its lock
	label   string
	owned   bool   // the function owns the resource on entry (receive buffer) instead of acquiring it
	release string // source text of the releasing call, when it is not a method of `mutex`
}

var skelTargets = []skelTarget{
	{"plugins/allocators/bitmap/bitmap.go", "Allocator", "Allocate", "a.l", []string{"a.bitmap"}, 2, "bitmap.Allocator.Allocate", false, ""},
	{"plugins/allocators/bitmap/bitmap.go", "Allocator", "Free", "a.l", []string{"a.bitmap"}, 2, "bitmap.Allocator.Free", false, ""},
	{"plugins/allocators/bitmap/bitmap_ipv4.go", "IPv4Allocator", "Allocate", "a.l", []string{"a.bitmap"}, 2, "bitmap.IPv4Allocator.Allocate", false, ""},
	{"plugins/allocators/bitmap/bitmap_ipv4.go", "IPv4Allocator", "Free", "a.l", []string{"a.bitmap"}, 2, "bitmap.IPv4Allocator.Free", false, ""},
	{"plugins/range/plugin.go", "PluginState", "Handler4", "p", []string{"p.Recordsv4", "p.allocator", "p.leasedb"}, 1, "range.Handler4", false, ""},
	{"plugins/prefix/plugin.go", "Handler", "Handle", "h", []string{"h.Records", "h.allocator"}, 1, "prefix.Handle", false, ""},
	{"plugins/file/plugin.go", "", "Handler4", "recLock", []string{"StaticRecords"}, 1, "file.Handler4", false, ""},
	{"plugins/file/plugin.go", "", "Handler6", "recLock", []string{"StaticRecords"}, 1, "file.Handler6", false, ""},
	{"plugins/file/plugin.go", "", "loadFromFile", "recLock", []string{"StaticRecords"}, 1, "file.loadFromFile", false, ""},
	{"plugins/file/plugin.go", "", "setupFile", "recLock", []string{"StaticRecords"}, 0, "file.setupFile", false, ""},
	{"plugins/file/plugin.go", "", "numRecords", "recLock", []string{"StaticRecords"}, 1, "file.numRecords", false, ""},
	// the receive buffer: owned by the handling goroutine from the moment Serve hands it over until
	// it is put back into the pool — exactly once, and never touched afterwards
	{"server/handle.go", "listener4", "HandleMsg4", "bufpool", []string{"buf"}, 0, "server.HandleMsg4", true, "bufpool.Put(&buf)"},
	{"server/handle.go", "listener6", "HandleMsg6", "bufpool", []string{"buf"}, 0, "server.HandleMsg6", true, "bufpool.Put(&buf)"},
}

// methods that touch the guarded state themselves and rely on the caller holding the lock: a call
// to one of them counts as a write access at the call site
var lockedHelpers = map[string]bool{"range.Handler4:saveIPAddress": true}

var mutating = map[string]bool{"Set": true, "Clear": true, "SetTo": true, "Flip": true, "ClearAll": true, "SetAll": true, "Exec": true}

type skelTr struct {
	fset    *token.FileSet
	t       skelTarget
	recvVar string
	unsup   string
	ctx     []string // enclosing "loop" / "switch" statements
	spawned []*ast.FuncLit // bodies of `go func() {...}()` statements: analysed as functions of their own
}

func (s *skelTr) str(e ast.Node) string {
	var b bytes.Buffer
	printer.Fprint(&b, s.fset, e)
	return b.String()
}

func (s *skelTr) isGuarded(e ast.Expr) bool {
	x := s.str(e)
	for _, g := range s.t.guarded {
		if x == g {
			return true
		}
	}
	return false
}

func q(x string) string { return "\"" + strings.ReplaceAll(x, "\"", "'") + "\"" }

// exprEvents returns the events of evaluating e (reads of guarded locations, calls), in source order.
func (s *skelTr) exprEvents(e ast.Node, write bool) []string {
	var out []string
	if e == nil {
		return out
	}
	var walk func(n ast.Node, w bool)
	walk = func(n ast.Node, w bool) {
		switch x := n.(type) {
		case nil:
			return
		case *ast.FuncLit:
			s.unsup = "function literal inside " + s.t.label
			return
		case *ast.CallExpr:
			if sel, ok := x.Fun.(*ast.SelectorExpr); ok {
				recv := s.str(sel.X)
				switch {
				case recv == s.t.mutex && (sel.Sel.Name == "Lock" || sel.Sel.Name == "Unlock" || sel.Sel.Name == "RLock" || sel.Sel.Name == "RUnlock"):
					// a lock operation inside an expression: only statements are understood
					s.unsup = "lock operation inside an expression in " + s.t.label
					return
				case s.isGuarded(sel.X):
					for _, a := range x.Args {
						walk(a, false)
					}
					out = append(out, fmt.Sprintf("KAcc %v %s", mutating[sel.Sel.Name], q(recv)))
					if strings.HasSuffix(recv, "allocator") {
						out = append(out, "KCall "+q(sel.Sel.Name))
					}
					return
				case recv == s.recvVar:
					for _, a := range x.Args {
						walk(a, false)
					}
					if lockedHelpers[s.t.label+":"+sel.Sel.Name] {
						out = append(out, "KAcc true "+q("call "+recv+"."+sel.Sel.Name))
					}
					out = append(out, "KCall "+q(sel.Sel.Name))
					return
				}
			}
			if id, ok := x.Fun.(*ast.Ident); ok {
				// a call of another analysed function of the same file (it takes a lock itself)
				for _, t := range skelTargets {
					if t.file == s.t.file && t.recv == "" && t.name == id.Name {
						for _, a := range x.Args {
							walk(a, false)
						}
						out = append(out, "KCall "+q(id.Name))
						return
					}
				}
			}
			walk(x.Fun, false)
			for _, a := range x.Args {
				walk(a, false)
			}
			return
		case *ast.SelectorExpr:
			if s.isGuarded(x) {
				out = append(out, fmt.Sprintf("KAcc %v %s", w, q(s.str(x))))
				return
			}
			walk(x.X, w)
			return
		case *ast.Ident:
			if s.isGuarded(x) {
				out = append(out, fmt.Sprintf("KAcc %v %s", w, q(x.Name)))
			}
			return
		case *ast.IndexExpr:
			walk(x.Index, false)
			walk(x.X, w)
			return
		case *ast.StarExpr:
			walk(x.X, w)
			return
		case *ast.ParenExpr:
			walk(x.X, w)
			return
		case *ast.UnaryExpr:
			walk(x.X, w)
			return
		case *ast.BinaryExpr:
			walk(x.X, false)
			walk(x.Y, false)
			return
		case *ast.KeyValueExpr:
			walk(x.Value, false)
			return
		case *ast.CompositeLit:
			for _, el := range x.Elts {
				walk(el, false)
			}
			return
		case *ast.SliceExpr:
			walk(x.X, w)
			walk(x.Low, false)
			walk(x.High, false)
			return
		case *ast.TypeAssertExpr:
			walk(x.X, false)
			return
		case *ast.BasicLit, *ast.ArrayType, *ast.MapType, *ast.StructType, *ast.InterfaceType, *ast.FuncType, *ast.ChanType, *ast.Ellipsis:
			return
		default:
			s.unsup = fmt.Sprintf("expression %T in %s", n, s.t.label)
		}
	}
	walk(e, write)
	return out
}

func seq(items []string) string {
	if len(items) == 1 {
		return items[0]
	}
	return "KSeq [" + strings.Join(items, "; ") + "]"
}

func (s *skelTr) lockOp(call *ast.CallExpr) (string, bool) {
	if s.t.release != "" {
		if s.str(call) == s.t.release {
			return "KUnlock true", true
		}
		return "", false
	}
	sel, ok := call.Fun.(*ast.SelectorExpr)
	if !ok || s.str(sel.X) != s.t.mutex {
		return "", false
	}
	switch sel.Sel.Name {
	case "Lock":
		return "KLock true", true
	case "Unlock":
		return "KUnlock true", true
	case "RLock":
		return "KLock false", true
	case "RUnlock":
		return "KUnlock false", true
	}
	return "", false
}

func (s *skelTr) stmt(st ast.Stmt) string {
	switch x := st.(type) {
	case nil:
		return "KSeq []"
	case *ast.BlockStmt:
		items := []string{}
		for _, b := range x.List {
			items = append(items, s.stmt(b))
		}
		return "KSeq [" + strings.Join(items, "; ") + "]"
	case *ast.ExprStmt:
		if call, ok := x.X.(*ast.CallExpr); ok {
			if op, ok := s.lockOp(call); ok {
				return op
			}
		}
		return seq(append(s.exprEvents(x.X, false), "KSeq []"))
	case *ast.DeferStmt:
		if op, ok := s.lockOp(x.Call); ok {
			if strings.HasPrefix(op, "KUnlock") {
				return "KDeferUnlock " + strings.TrimPrefix(op, "KUnlock ")
			}
			s.unsup = "deferred lock in " + s.t.label
		}
		return seq(append(s.exprEvents(x.Call, false), "KSeq []"))
	case *ast.AssignStmt:
		items := []string{}
		for _, r := range x.Rhs {
			items = append(items, s.exprEvents(r, false)...)
		}
		for _, l := range x.Lhs {
			items = append(items, s.exprEvents(l, true)...)
		}
		return seq(append(items, "KSeq []"))
	case *ast.IncDecStmt:
		return seq(append(s.exprEvents(x.X, true), "KSeq []"))
	case *ast.DeclStmt:
		items := []string{}
		if gd, ok := x.Decl.(*ast.GenDecl); ok {
			for _, sp := range gd.Specs {
				if vs, ok := sp.(*ast.ValueSpec); ok {
					for _, v := range vs.Values {
						items = append(items, s.exprEvents(v, false)...)
					}
				}
			}
		}
		return seq(append(items, "KSeq []"))
	case *ast.ReturnStmt:
		items := []string{}
		for _, r := range x.Results {
			items = append(items, s.exprEvents(r, false)...)
		}
		return seq(append(items, "KRet"))
	case *ast.IfStmt:
		items := []string{}
		if x.Init != nil {
			items = append(items, s.stmt(x.Init))
		}
		items = append(items, s.exprEvents(x.Cond, false)...)
		els := "KSeq []"
		if x.Else != nil {
			els = s.stmt(x.Else)
		}
		items = append(items, "KIf ["+s.stmt(x.Body)+"; "+els+"]")
		return seq(items)
	case *ast.ForStmt:
		items := []string{}
		if x.Init != nil {
			items = append(items, s.stmt(x.Init))
		}
		// the condition and the post statement run on paths the skeleton does not spell out
		// (after a continue): they must not touch guarded state
		if len(s.exprEvents(x.Cond, false)) != 0 || (x.Post != nil && strings.Contains(s.stmt(x.Post), "KAcc")) {
			s.unsup = "loop condition or post statement touching guarded state in " + s.t.label
		}
		s.ctx = append(s.ctx, "loop")
		items = append(items, "KLoop ("+s.stmt(x.Body)+")")
		s.ctx = s.ctx[:len(s.ctx)-1]
		return seq(items)
	case *ast.RangeStmt:
		items := s.exprEvents(x.X, false)
		s.ctx = append(s.ctx, "loop")
		items = append(items, "KLoop ("+s.stmt(x.Body)+")")
		s.ctx = s.ctx[:len(s.ctx)-1]
		return seq(items)
	case *ast.SwitchStmt:
		s.ctx = append(s.ctx, "switch")
		defer func() { s.ctx = s.ctx[:len(s.ctx)-1] }()
		items := []string{}
		if x.Init != nil {
			items = append(items, s.stmt(x.Init))
		}
		items = append(items, s.exprEvents(x.Tag, false)...)
		alts := []string{}
		hasDefault := false
		for _, cc := range x.Body.List {
			c := cc.(*ast.CaseClause)
			if c.List == nil {
				hasDefault = true
			}
			b := []string{}
			for _, e := range c.List {
				b = append(b, s.exprEvents(e, false)...)
			}
			for _, bs := range c.Body {
				b = append(b, s.stmt(bs))
			}
			alts = append(alts, "KSeq ["+strings.Join(b, "; ")+"]")
		}
		if !hasDefault {
			alts = append(alts, "KSeq []")
		}
		items = append(items, "KIf ["+strings.Join(alts, "; ")+"]")
		return seq(items)
	case *ast.TypeSwitchStmt:
		s.ctx = append(s.ctx, "switch")
		defer func() { s.ctx = s.ctx[:len(s.ctx)-1] }()
		alts := []string{}
		for _, cc := range x.Body.List {
			c := cc.(*ast.CaseClause)
			b := []string{}
			for _, bs := range c.Body {
				b = append(b, s.stmt(bs))
			}
			alts = append(alts, "KSeq ["+strings.Join(b, "; ")+"]")
		}
		alts = append(alts, "KSeq []")
		return "KIf [" + strings.Join(alts, "; ") + "]"
	case *ast.BranchStmt:
		// break / continue of the innermost loop: this path of the body ends here
		if x.Label != nil || (x.Tok != token.BREAK && x.Tok != token.CONTINUE) || len(s.ctx) == 0 {
			s.unsup = "labelled branch, goto or fallthrough in " + s.t.label
			return "KSeq []"
		}
		if s.ctx[len(s.ctx)-1] == "switch" && x.Tok == token.BREAK {
			s.unsup = "break inside a switch in " + s.t.label
			return "KSeq []"
		}
		for _, c := range s.ctx {
			if c == "loop" {
				return "KBrk"
			}
		}
		s.unsup = "continue outside a loop in " + s.t.label
		return "KSeq []"
	case *ast.GoStmt:
		if fl, ok := x.Call.Fun.(*ast.FuncLit); ok && len(x.Call.Args) == 0 {
			s.spawned = append(s.spawned, fl)
			return "KSeq []"
		}
		s.unsup = "go statement that is not a literal without arguments in " + s.t.label
		return "KSeq []"
	case *ast.EmptyStmt:
		return "KSeq []"
	case *ast.LabeledStmt:
		return s.stmt(x.Stmt)
	}
	s.unsup = fmt.Sprintf("statement %T in %s", st, s.t.label)
	return "KSeq []"
}

func genSkeleton(repo string) (string, string) {
	var sb strings.Builder
	names := []string{}
	for i, t := range skelTargets {
		fset := token.NewFileSet()
		f, err := parser.ParseFile(fset, filepath.Join(repo, t.file), nil, 0)
		if err != nil {
			return "", "cannot parse " + t.file + ": " + err.Error()
		}
		var fd *ast.FuncDecl
		for _, d := range f.Decls {
			if x, ok := d.(*ast.FuncDecl); ok && x.Name.Name == t.name {
				rt := ""
				if x.Recv != nil && len(x.Recv.List) == 1 {
					switch r := x.Recv.List[0].Type.(type) {
					case *ast.StarExpr:
						if id, ok := r.X.(*ast.Ident); ok {
							rt = id.Name
						}
					case *ast.Ident:
						rt = r.Name
					}
				}
				if rt == t.recv {
					fd = x
				}
			}
		}
		if fd == nil {
			return "", "function " + t.label + " not found"
		}
		tr := &skelTr{fset: fset, t: t}
		if fd.Recv != nil && len(fd.Recv.List[0].Names) == 1 {
			tr.recvVar = fd.Recv.List[0].Names[0].Name
		}
		body := tr.stmt(fd.Body)
		if tr.unsup != "" {
			return "", "unsupported: " + tr.unsup
		}
		id := fmt.Sprintf("sk_%d", i)
		names = append(names, id)
		emit := func(id, label, body string) {
			fmt.Fprintf(&sb, "(* %s, %s *)\nDefinition %s : fskel :=\n  {| fs_name := %s; fs_lock := %s; fs_rank := %d; fs_owned := %v; fs_body :=\n    %s |}.\n\n", label, t.file, id, q(label), q(t.file+":"+t.mutex), t.rank, t.owned, body)
		}
		emit(id, t.label, body)
		for k := 0; k < len(tr.spawned); k++ { // goroutines started by the function (and by those)
			tr.ctx = nil
			gb := tr.stmt(tr.spawned[k].Body)
			if tr.unsup != "" {
				return "", "unsupported: " + tr.unsup
			}
			gid := fmt.Sprintf("sk_%d_go%d", i, k+1)
			names = append(names, gid)
			emit(gid, fmt.Sprintf("%s.go%d", t.label, k+1), gb)
		}
	}
	census, reason := genCensus(repo)
	if reason != "" {
		return "", reason
	}
	sb.WriteString(census)
	fmt.Fprintf(&sb, "Definition all_skeletons : list fskel := [%s].\n", strings.Join(names, "; "))
	return sb.String(), ""
}

// genCensus lists every function (of the non-test files of the packages that own lock-protected
// state) whose body mentions a guarded location: the Coq side requires each of them to be an
// analysed function or one of the hand-listed exemptions (set-up code that runs before the
// handler is published, helpers only called inside a critical section).
func genCensus(repo string) (string, string) {
	type pk struct {
		dir    string
		idents []string // plain identifiers / field names of guarded locations
	}
	pks := []pk{
		{"plugins/allocators/bitmap", []string{"bitmap"}},
		{"plugins/range", []string{"Recordsv4", "allocator", "leasedb"}},
		{"plugins/prefix", []string{"Records", "allocator"}},
		{"plugins/file", []string{"StaticRecords"}},
		{"server", []string{"bufpool"}},
	}
	var items []string
	for _, p := range pks {
		fset := token.NewFileSet()
		pkgs, err := parser.ParseDir(fset, filepath.Join(repo, p.dir), func(fi os.FileInfo) bool {
			return !strings.HasSuffix(fi.Name(), "_test.go") && !strings.HasPrefix(fi.Name(), "verif_")
		}, 0)
		if err != nil {
			return "", "census: " + err.Error()
		}
		var found []string
		for _, pkg := range pkgs {
			for _, f := range pkg.Files {
				for _, d := range f.Decls {
					fd, ok := d.(*ast.FuncDecl)
					if !ok || fd.Body == nil {
						continue
					}
					hit := false
					ast.Inspect(fd.Body, func(n ast.Node) bool {
						switch x := n.(type) {
						case *ast.SelectorExpr:
							for _, id := range p.idents {
								if x.Sel.Name == id {
									hit = true
								}
							}
						case *ast.Ident:
							for _, id := range p.idents {
								if x.Name == id && x.Obj != nil && x.Obj.Kind == ast.Var {
									if _, isField := x.Obj.Decl.(*ast.Field); !isField {
										hit = true
									}
								}
							}
						case *ast.KeyValueExpr:
							// a composite literal initialising the field: construction, before the value is shared
							if id, ok := x.Key.(*ast.Ident); ok {
								for _, g := range p.idents {
									if id.Name == g {
										ast.Inspect(x.Value, func(ast.Node) bool { return true })
										return false
									}
								}
							}
						}
						return true
					})
					if hit {
						name, rt := fd.Name.Name, ""
						if fd.Recv != nil && len(fd.Recv.List) == 1 {
							switch r := fd.Recv.List[0].Type.(type) {
							case *ast.StarExpr:
								if id, ok := r.X.(*ast.Ident); ok {
									rt = id.Name
								}
							case *ast.Ident:
								rt = r.Name
							}
						}
						label := p.dir + ":" + name
						if rt != "" {
							label = p.dir + ":" + rt + "." + name
						}
						for _, t := range skelTargets { // an analysed function goes by its skeleton's name
							if filepath.Dir(t.file) == p.dir && t.recv == rt && t.name == name {
								label = t.label
							}
						}
						found = append(found, label)
					}
				}
			}
		}
		sort.Strings(found)
		for _, f := range found {
			items = append(items, q(f))
		}
	}
	return "(* every function mentioning a guarded location *)\nDefinition census : list string :=\n  [" + strings.Join(items, ";\n   ") + "].\n\n", ""
}
