(* NilStop.v — C13, last clause: a built-in handler only ever returns a nil response together with
   stop.  For every plugin instance of the assembled model (stateless plugins, range plugin in any
   state, file plugin with any table; DHCPv6: stateless plugins, prefix plugin in any state, file
   plugin), every request and every non-nil response handed to it. *)
From Coq Require Import List NArith ZArith Bool.
From Verif Require Import Base Net Alloc Msg4 Msg6 Plugins4 Plugins6 RangePlugin PrefixPlugin FilePlugin Assembly.
Import ListNotations.

Theorem plug4_nil_only_with_stop p req resp stop : plug4_handler p req resp = Ok (None, stop) -> stop = true.
Proof.
  destruct p; cbn [plug4_handler]; intros H;
    repeat match type of H with
           | context [match ?x with _ => _ end] => destruct x
           | context [if ?x then _ else _] => destruct x
           | context [bind ?x _] => destruct x; cbn [bind] in H
           end; try discriminate; try (injection H as H; congruence); congruence.
Qed.

Theorem builtin4_nil_only_with_stop now i req resp i' stop :
  inst4_call now i req (Some resp) = (i', Ok (None, stop)) -> stop = true.
Proof.
  destruct i as [p|st|t]; cbn [inst4_call]; intros H.
  - injection H as _ H. exact (plug4_nil_only_with_stop _ _ _ _ H).
  - destruct (range_handler st now req resp) as [st' o] eqn:E. injection H as _ H. subst o.
    unfold range_handler in E. destruct (recs_get (mac_string (m_chaddr req)) (rs_recs st)) as [rc|].
    + destruct (rc_exp rc * NS <? now + rs_lease st)%Z; injection E as _ E; discriminate.
    + destruct (allocate4 (rs_alloc st) []) as [a' [ip|er|]]; injection E as _ E; try discriminate. congruence.
  - unfold file_handler4 in H. destruct (ft_get _ t); injection H as _ H; discriminate.
Qed.

Theorem plug6_nil_only_with_stop p req resp stop : plug6_handler p req resp = Ok (None, stop) -> stop = true.
Proof.
  destruct p; cbn [plug6_handler]; intros H;
    repeat match type of H with
           | context [match ?x with _ => _ end] => destruct x
           | context [if ?x then _ else _] => destruct x
           end; try discriminate; try (injection H as H; congruence); congruence.
Qed.

Theorem builtin6_nil_only_with_stop dec_pds enc_iapd now i req resp i' stop :
  inst6_call dec_pds enc_iapd now i req (Some resp) = (i', Ok (None, stop)) -> stop = true.
Proof.
  destruct i as [p|st|t]; cbn [inst6_call]; intros H.
  - injection H as _ H. exact (plug6_nil_only_with_stop _ _ _ _ H).
  - destruct (p_inner req) as [m|]; [|injection H as _ H; congruence].
    destruct (prefix_handle now st (o6_get OPT_CLIENTID (i_opts m)) (dec_pds m)) as [st' o].
    injection H as _ H. destruct o; try discriminate. congruence.
  - unfold file_handler6 in H.
    repeat match type of H with
           | context [match ?x with _ => _ end] => destruct x
           end; injection H as _ H; try discriminate; congruence.
Qed.
