(* C07 — A hint naming a free block is honoured exactly. *)
From Verif Require Import Base BaseProofs Net NetProofs Bitset IdxAlloc BitsetProofs Ipcalc IpcalcProofs IpcalcRun Alloc AllocRun Alloc4Proofs Alloc6Proofs AllocTheorems AllocExamples.
Open Scope N_scope.

Theorem hint4_honoured :
  forall (s e : bytes) (a0 : a4),
  wf_bytes s ->
  wf_bytes e ->
  new4 s e = Ok a0 ->
  forall (ops : list aop) (i : nat) (hip hm : bytes) (x : N),
  nth_error ops i = Some (OAlloc hip hm) ->
  to_offset4 a0 hip = Ok x ->
  ~ In x (bits (final4 a0 (firstn i ops))) ->
  nth_error (run step4 a0 ops) i = Some (RAlloc (Ok (be_bytes 4 (a4_start a0 + x), mask32))) /\
  bits (final4 a0 (firstn (S i) ops)) = x :: bits (final4 a0 (firstn i ops)).
Proof. exact AllocTheorems.hint4_honoured. Qed.
Print Assumptions hint4_honoured.

Theorem hint6_honoured :
  forall (a0 : a6) (L P : N),
  valid6 a0 L P ->
  forall (ops : list aop) (i : nat) (hip hm : bytes) (x : N),
  Forall wf_op ops ->
  nth_error ops i = Some (OAlloc hip hm) ->
  hint_idx6 a0 hip = Some x ->
  ~ In x (bits (final6 a0 (firstn i ops))) ->
  nth_error (run step6 a0 ops) i = Some (RAlloc (Ok (blk_ip a0 P x, req_mask a0 hm))) /\
  bits (final6 a0 (firstn (S i) ops)) = x :: bits (final6 a0 (firstn i ops)).
Proof. exact AllocTheorems.hint6_honoured. Qed.
Print Assumptions hint6_honoured.

Theorem hint_idx6_inside :
  forall (a0 : a6) (L P : N),
  valid6 a0 L P ->
  forall (hip : bytes) (x : N),
  wf_bytes hip ->
  length hip = 16%nat ->
  to4 hip = None ->
  x < 2 ^ (P - L) ->
  v (blk_ip a0 P x) <= v hip < v (blk_ip a0 P x) + Bsz P -> hint_idx6 a0 hip = Some x.
Proof. exact AllocTheorems.hint_idx6_inside. Qed.
Print Assumptions hint_idx6_inside.

Theorem hint4_names :
  forall (s e : bytes) (a0 : a4),
  wf_bytes s ->
  wf_bytes e ->
  new4 s e = Ok a0 ->
  forall (ip : bytes) (x : N),
  to_offset4 a0 ip = Ok x <->
  (exists ip4 : bytes,
  to4 ip = Some ip4 /\
  a4_start a0 <= be_u32_of ip4 <= a4_end a0 /\ x = be_u32_of ip4 - a4_start a0).
Proof. exact AllocTheorems.to_offset4_iff. Qed.
Print Assumptions hint4_names.


(* Non-vacuity: a concrete valid pool and a concrete non-trivial history meet the hypotheses
   (2001:db8:0:100::/56 in /64 blocks; 10.0.0.1-10.0.0.2), see proofs/AllocExamples.v *)
Example hypotheses_satisfiable :
  (new6 ex_pool (cidr_bytes 16 56) 64 = Ok ex_a6 /\ valid6 ex_a6 56 64) /\
  Forall wf_op ex_ops /\
  run step6 ex_a6 ex_ops =
    [RAlloc (Ok (blk 0, m64)); RFree (Ok tt); RAlloc (Ok (blk 0, m64));
     RAlloc (Ok (blk 7, cidr_bytes 16 72)); RFree (Err ENotInRange); RFree (Ok tt); RFree (Err EDoubleFree)] /\
  new4 [10;0;0;1] [10;0;0;2] = Ok ex_a4.
Proof. exact (conj ex_valid (conj ex_ops_wf (conj ex_run ex4_new))). Qed.
