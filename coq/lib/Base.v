(* Base.v — common vocabulary of every model: three-way results, Go's fixed-width
   unsigned arithmetic written with its wrap-around, byte strings.
   Definitions only (proofs live in lib/BaseProofs.v). *)
From Coq Require Export List NArith ZArith Bool.
Export ListNotations.
Open Scope N_scope.

(* ---- three-way result: what a Go call does ---- *)
Inductive err : Type :=
| EOverflow          (* allocators.ErrOverflow *)
| EPrefixRange       (* "prefix out of range" *)
| ENeed128           (* "AddPrefixes needs 128-bit IPs" *)
| ENoAddr            (* allocators.ErrNoAddrAvail *)
| EDoubleFree        (* *allocators.ErrDoubleFree *)
| ENotInRange        (* errNotInRange / "Could not find prefix in pool" *)
| EInvalidIP
| EBug               (* "BUG: could not get prefix from allocation" *)
| EOther.

Inductive res (A : Type) : Type :=
| Ok (a : A)
| Err (e : err)
| Panic.             (* run-time panic: index/slice out of range, nil dereference, explicit panic *)
Arguments Ok {A} a.
Arguments Err {A} e.
Arguments Panic {A}.

Definition bind {A B} (r : res A) (f : A -> res B) : res B :=
  match r with Ok a => f a | Err e => Err e | Panic => Panic end.

Definition err_eqb (a b : err) : bool :=
  match a, b with
  | EOverflow, EOverflow | EPrefixRange, EPrefixRange | ENeed128, ENeed128
  | ENoAddr, ENoAddr | EDoubleFree, EDoubleFree | ENotInRange, ENotInRange
  | EInvalidIP, EInvalidIP | EBug, EBug | EOther, EOther => true
  | _, _ => false
  end.

(* ---- Go uint64 / uint32 ---- *)
Definition W64 : N := 18446744073709551616.   (* 2^64 *)
Definition W32 : N := 4294967296.             (* 2^32 *)

Definition u64_add (x y : N) : N := (x + y) mod W64.
Definition u64_sub (x y : N) : N := (x + W64 - y mod W64) mod W64.
(* Go: a shift count >= the width yields 0 for unsigned operands *)
Definition u64_shl (x s : N) : N := if s <? 64 then (x * 2 ^ s) mod W64 else 0.
Definition u64_shr (x s : N) : N := if s <? 64 then x / 2 ^ s else 0.
(* uint(i) / uint64(i) for a Go int i (two's complement) *)
Definition u64_of_int (i : Z) : N := Z.to_N (i mod 18446744073709551616).

(* math/bits *)
Definition sub64 (x y b : N) : N * N :=
  ((x + W64 + W64 - y - b) mod W64, if x <? y + b then 1 else 0).
Definition add64 (x y c : N) : N * N :=
  ((x + y + c) mod W64, (x + y + c) / W64).
Definition mul64 (x y : N) : N * N := ((x * y) / W64, (x * y) mod W64).

Definition u32_add (x y : N) : N := (x + y) mod W32.
Definition u32_sub (x y : N) : N := (x + W32 - y mod W32) mod W32.

(* ---- byte strings; net.IP is a byte string of length 0 (nil), 4 or 16 ---- *)
Definition bytes := list N.

Definition wf_bytes (l : bytes) : Prop := Forall (fun b => b < 256) l.
Definition wf_bytesb (l : bytes) : bool := forallb (fun b => b <? 256) l.

(* big-endian value of a byte string *)
Definition be_val (l : bytes) : N := fold_left (fun acc b => acc * 256 + b) l 0.

(* n big-endian bytes of x (the low 8n bits) *)
Fixpoint be_bytes (n : nat) (x : N) : bytes :=
  match n with
  | O => []
  | S n' => be_bytes n' (x / 256) ++ [x mod 256]
  end.

(* a[lo:hi] with constant bounds on a slice whose capacity equals its length *)
Definition go_slice (l : bytes) (lo hi : nat) : res bytes :=
  if (Nat.leb lo hi && Nat.leb hi (length l))%bool
  then Ok (firstn (hi - lo) (skipn lo l)) else Panic.

(* binary.BigEndian.Uint64 / Uint32: panic when the slice is too short *)
Definition be_u64 (l : bytes) : res N :=
  if Nat.leb 8 (length l) then Ok (be_val (firstn 8 l)) else Panic.
Definition be_u32 (l : bytes) : res N :=
  if Nat.leb 4 (length l) then Ok (be_val (firstn 4 l)) else Panic.

(* bytes.Compare: -1, 0, +1 lexicographically, a proper prefix is smaller *)
Fixpoint bytes_compare (a b : bytes) : Z :=
  match a, b with
  | [], [] => 0%Z
  | [], _ :: _ => (-1)%Z
  | _ :: _, [] => 1%Z
  | x :: a', y :: b' =>
      if x <? y then (-1)%Z else if y <? x then 1%Z else bytes_compare a' b'
  end.

Fixpoint bytes_eqb (a b : bytes) : bool :=
  match a, b with
  | [], [] => true
  | x :: a', y :: b' => (x =? y) && bytes_eqb a' b'
  | _, _ => false
  end.

Definition zeros (n : nat) : bytes := repeat 0 n.
Definition all_zero (l : bytes) : bool := forallb (fun b => b =? 0) l.

Definition int_of_u64 (x : N) : Z :=
  if x <? 9223372036854775808 then Z.of_N x else (Z.of_N x - 18446744073709551616)%Z.

(* binary.BigEndian.PutUint64(l[lo:hi], v): the slice expression panics when out
   of bounds, PutUint64 panics when the slice is shorter than 8 bytes; the eight
   bytes land at l[lo..lo+8). *)
Definition go_put_u64 (l : bytes) (lo hi : nat) (v : N) : res bytes :=
  if (Nat.leb lo hi && Nat.leb hi (length l) && Nat.leb 8 (hi - lo))%bool
  then Ok (firstn lo l ++ be_bytes 8 v ++ skipn (lo + 8) l) else Panic.
