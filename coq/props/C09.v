(* C09 — A client keeps its delegated prefix: renewals and repeats return it.
   pinv st L P holds of every reachable state (prun_spec); key l = (address, mask) of a lease. *)
From Verif Require Import Base BaseProofs Net NetProofs Bitset Ipcalc IpcalcProofs Alloc Alloc6Proofs AllocTheorems PrefixPlugin PrefixProofs PrefixTheorems PrefixExamples.
Open Scope N_scope.

Theorem pd_renew_exact :
  forall (now : Z) (L P : N) (st : pstate) (c : bytes) (hints : list hint) (l : lease),
  pinv st L P ->
  Forall wf_hint hints ->
  In l (precs_get c (ps_recs st)) ->
  In (Some (ls_ip l, ls_mask l)) hints ->
  exists (st' : pstate) (out : list lease),
  one_iapd now st c hints = Ok (st', out) /\ In (key l) (map key out).
Proof. exact (@PrefixTheorems.pd_renew_exact). Qed.
Print Assumptions pd_renew_exact.

Theorem pd_hintless_returns_known :
  forall (now : Z) (L P : N) (st : pstate) (c : bytes) (hints : list (option (bytes * bytes))),
  pinv st L P ->
  hints = [] \/ hints = [None] ->
  precs_get c (ps_recs st) <> [] ->
  exists (st' : pstate) (out : list lease),
  one_iapd now st c hints = Ok (st', out) /\
  ps_alloc st' = ps_alloc st /\
  map key out = map key (precs_get c (ps_recs st)) /\
  map key (precs_get c (ps_recs st')) = map key (precs_get c (ps_recs st)).
Proof. exact (@PrefixTheorems.pd_hintless_returns_known). Qed.
Print Assumptions pd_hintless_returns_known.

Theorem pd_all_remembered :
  forall (L P : N) (st : pstate) (ms : list pmsg) (c : bytes) (l : lease),
  pinv st L P ->
  Forall wf_pmsg ms ->
  In (c, l) (delegated ms (snd (prun st ms))) ->
  In (key l) (map key (precs_get c (ps_recs (fst (prun st ms))))).
Proof. exact (@PrefixTheorems.pd_all_remembered). Qed.
Print Assumptions pd_all_remembered.

Theorem pd_records_only_grow :
  forall (L P : N) (st : pstate) (ms : list pmsg) (c : bytes) (l : lease),
  pinv st L P ->
  Forall wf_pmsg ms ->
  In l (precs_get c (ps_recs st)) ->
  In (key l) (map key (precs_get c (ps_recs (fst (prun st ms))))).
Proof. exact (@PrefixTheorems.pd_records_only_grow). Qed.
Print Assumptions pd_records_only_grow.

Theorem reachable_states_invariant :
  forall (L P : N) (ms : list pmsg) (st : pstate),
  pinv st L P ->
  Forall wf_pmsg ms ->
  let
  '(st', os) := prun st ms in
  pinv st' L P /\
  ~ In PPanic os /\
  static6 (ps_alloc st) (ps_alloc st') /\
  (forall (c0 : bytes) (l : lease),
  In l (precs_get c0 (ps_recs st)) -> In (key l) (map key (precs_get c0 (ps_recs st')))) /\
  (forall (c : bytes) (l : lease),
  In (c, l) (delegated ms os) -> In (key l) (map key (precs_get c (ps_recs st')))).
Proof. exact (@PrefixTheorems.prun_spec). Qed.
Print Assumptions reachable_states_invariant.

Theorem setup_invariant :
  forall (pip : bytes) (L P : N) (st0 : pstate),
  wf_ip16 pip /\ to4 pip = None /\ L <= P /\ P <= 128 /\ P - L < 64 /\ v pip mod Bsz L = 0 ->
  prefix_setup pip (cidr_bytes 16 L) (Z.of_N P) = Ok st0 ->
  pinv st0 L P /\ a6_ip (ps_alloc st0) = pip /\ ps_recs st0 = [].
Proof. exact (@PrefixTheorems.setup_pinv). Qed.
Print Assumptions setup_invariant.


(* Non-vacuity (proofs/PrefixExamples.v): pool 2001:db8::/62 in /64 blocks; client A is given
   2001:db8::/64 for a hint-less IA_PD, again for the retransmission and for the exact renewal;
   client B gets the next block; a message without client identifier is dropped *)
Example hypotheses_satisfiable :
  (prefix_setup px_pool (cidr_bytes 16 62) (Z.of_N 64) = Ok px_st0 /\
   (wf_ip16 px_pool /\ to4 px_pool = None /\ 62 <= 64 /\ 64 <= 128 /\ 64 - 62 < 64 /\ v px_pool mod Bsz 62 = 0)) /\
  Forall wf_pmsg px_ms /\
  map (fun o => match o with PResp outs => Some (map (fun p => (fst p, map ls_ip (snd p))) outs) | _ => None end) (snd (prun px_st0 px_ms)) =
  [Some [([0;0;0;1], [px_pool])];
   Some [([0;0;0;1], [[32;1;13;184;0;0;0;1;0;0;0;0;0;0;0;0]]); ([0;0;0;2], [[32;1;13;184;0;0;0;1;0;0;0;0;0;0;0;0]])];
   Some [([0;0;0;1], [px_pool])];
   Some [([0;0;0;7], [px_pool])];
   None].
Proof. exact (conj px_setup (conj px_wf px_run)). Qed.
