#!/usr/bin/env python3
"""addthm.py <props/Cxx.v> "<extra modules>" name=Lemma ... : inserts theorems restating the given lemmas
(types as printed by Check) before the non-vacuity Example of an existing props file and adds the modules
to its first `From Verif Require Import` line."""
import sys, subprocess, re
path, mods = sys.argv[1], sys.argv[2].split()
pairs = [a.split('=') for a in sys.argv[3:]]
src = open(path).read()
m = re.search(r'^(From Verif Require Import )([^.]*)\.', src, re.M)
have = m.group(2).split()
new = have + [x for x in mods if x not in have]
imports = m.group(1) + ' '.join(new) + '.'
rest = src[:m.start()] + imports + src[m.end():]
other = '\n'.join(l for l in re.findall(r'^(?:From Coq Require Import [^.]*\.|Open Scope [^.]*\.)', rest, re.M))
q = imports + '\n' + other + '\nSet Printing Width 100.\n' + ''.join('Check @%s.\n' % l for _, l in pairs)
p = subprocess.run(['coqtop', '-Q', 'lib', 'Verif', '-Q', 'model', 'Verif', '-Q', 'gen', 'Verif', '-Q', 'proofs', 'Verif', '-quiet'],
                   input=q, capture_output=True, text=True, cwd='/verif/coq')
txt = p.stdout
body = ''
for name, lemma in pairs:
    if re.search(r'^Theorem %s\b' % re.escape(name), rest, re.M):
        continue
    short = lemma.split('.')[-1]
    mm = re.search(r'^(?:Coq < )*@?' + re.escape(short) + r'\n\s+: (.*?)(?=\n\S|\n\n|\Z)', txt, re.S | re.M)
    if not mm:
        sys.exit('no type for ' + lemma + '\n' + txt[-2000:] + p.stderr[-1000:])
    ty = '\n'.join('  ' + l.strip() if i else l.strip() for i, l in enumerate(mm.group(1).splitlines()))
    body += 'Theorem %s :\n  %s.\nProof. exact (@%s). Qed.\nPrint Assumptions %s.\n\n' % (name, ty, lemma, name)
k = rest.index('(* Non-vacuity')
open(path, 'w').write(rest[:k] + body + rest[k:])
print('added', [n for n, _ in pairs])
