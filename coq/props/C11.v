(* C11 — DHCPv4 replies match their request; non-requests are never answered.
   handle4 is the model of server/handle.go HandleMsg4 on the parse result of the datagram
   (None = the library rejected the bytes), for ANY list of handlers, any listener interface
   index and any control message.  hdr_preserving is what every built-in plugin handler
   satisfies (proved per plugin in the plugin developments). *)
From Verif Require Import Base BaseProofs Net Msg4 Chain ChainProofs Server4 Server4Run Server4Proofs Server4Examples Assembly AssemblyProofs AsmRefine.
Open Scope N_scope.

Theorem reply4_only_to_requests :
  forall (hs : list handler4) (lif : Z) (oob : option Z) (parsed : option msg4)
  (d : dest4) (m : msg4) (log : list (nat * option msg4)),
  handle4 hs lif oob parsed = (Sent d m, log) ->
  exists req r0 : msg4,
  parsed = Some req /\
  m_op req = 1 /\
  (msg_type req = 1 \/ msg_type req = 3) /\
  start4 req = Some r0 /\ run_chain4 hs 0 req (Some r0) = (Some m, log).
Proof. exact Server4Proofs.reply4_only_to_requests. Qed.
Print Assumptions reply4_only_to_requests.

Theorem no_reply_table :
  forall (hs : list handler4) (lif : Z) (oob : option Z) (req : msg4),
  m_op req <> 1 \/ msg_type req <> 1 /\ msg_type req <> 3 ->
  exists why : N, fst (handle4 hs lif oob (Some req)) = NoSend why.
Proof. exact Server4Proofs.no_reply_table. Qed.
Print Assumptions no_reply_table.

Theorem unparsed_never_answered :
  forall (hs : list handler4) (lif : Z) (oob : option Z),
  handle4 hs lif oob None = (NoSend 1, []).
Proof. exact Server4Proofs.unparsed_never_answered. Qed.
Print Assumptions unparsed_never_answered.

Theorem reply4_stub :
  forall req r0 : msg4,
  m_op req = 1 ->
  start4 req = Some r0 ->
  m_op r0 = 2 /\
  m_xid r0 = m_xid req /\
  m_htype r0 = m_htype req /\
  m_chaddr r0 = m_chaddr req /\
  m_flags r0 = m_flags req /\
  m_giaddr r0 = m_giaddr req /\
  m_ciaddr r0 = zero4 /\
  m_yiaddr r0 = zero4 /\
  m_siaddr r0 = zero4 /\
  opt_get 53 (m_opts r0) = Some [if msg_type req =? 1 then 2 else 5] /\
  (forall c : N,
  c = 61 \/ c = 82 ->
  opt_get c (m_opts r0) =
  match opt_get c (m_opts req) with
  | Some (b :: v) => Some (b :: v)
  | _ => None
  end) /\ (forall c : N, c <> 53 -> c <> 61 -> c <> 82 -> opt_get c (m_opts r0) = None).
Proof. exact Server4Proofs.reply4_stub. Qed.
Print Assumptions reply4_stub.

Theorem reply4_matches_request :
  forall (hs : list handler4) (lif : Z) (oob : option Z) (req : msg4)
  (d : dest4) (m : msg4) (log : list (nat * option msg4)),
  Forall hdr_preserving hs ->
  handle4 hs lif oob (Some req) = (Sent d m, log) ->
  m_op req = 1 /\
  m_op m = 2 /\
  m_xid m = m_xid req /\
  m_htype m = m_htype req /\
  m_chaddr m = m_chaddr req /\
  m_flags m = m_flags req /\
  m_giaddr m = m_giaddr req /\
  (forall c : N,
  c = 61 \/ c = 82 ->
  opt_get c (m_opts m) =
  match opt_get c (m_opts req) with
  | Some (b :: v) => Some (b :: v)
  | _ => None
  end) /\
  (msg_type req = 1 /\ (msg_type m = 2 \/ msg_type m = 6) \/
  msg_type req = 3 /\ (msg_type m = 5 \/ msg_type m = 6)).
Proof. exact Server4Proofs.reply4_matches_request. Qed.
Print Assumptions reply4_matches_request.


Theorem assembled_is_handle4 :
  forall (is : list inst4) (lif now : Z) (oob : option Z) (parsed : option msg4)
  (is' : list inst4) (o : outcome4),
  srv4_step is lif now oob parsed = (is', o) ->
  o <> O4Panic -> fst (handle4 (map (as_handler4 now) is) lif oob parsed) = out4_of o.
Proof. exact (@AsmRefine.srv4_refines_handle4). Qed.
Print Assumptions assembled_is_handle4.

Theorem instances_header_preserving :
  forall (now : Z) (i : inst4), hdr_preserving (as_handler4 now i).
Proof. exact (@AsmRefine.inst_hdr_preserving). Qed.
Print Assumptions instances_header_preserving.

Theorem assembled_reply4_matches_request :
  forall (is : list inst4) (lif now : Z) (oob : option Z) (req : msg4)
  (is' : list inst4) (d : dest4) (m : msg4),
  srv4_step is lif now oob (Some req) = (is', O4Sent d m) ->
  m_op req = 1 /\
  m_op m = 2 /\
  m_xid m = m_xid req /\
  m_htype m = m_htype req /\
  m_chaddr m = m_chaddr req /\
  m_flags m = m_flags req /\
  m_giaddr m = m_giaddr req /\
  (forall c : N,
  c = 61 \/ c = 82 ->
  opt_get c (m_opts m) =
  match opt_get c (m_opts req) with
  | Some (b :: v) => Some (b :: v)
  | _ => None
  end) /\
  (msg_type req = 1 /\ (msg_type m = 2 \/ msg_type m = 6) \/
  msg_type req = 3 /\ (msg_type m = 5 \/ msg_type m = 6)).
Proof. exact (@AsmRefine.assembled_reply4_matches_request). Qed.
Print Assumptions assembled_reply4_matches_request.

Theorem instances_type_preserving :
  forall (now : Z) (i : inst4), type_preserving (as_handler4 now i).
Proof. exact (@AsmRefine.inst_type_preserving). Qed.
Print Assumptions instances_type_preserving.

Theorem assembled_reply4_type :
  forall (is : list inst4) (lif now : Z) (oob : option Z) (req : msg4)
  (is' : list inst4) (d : dest4) (m : msg4),
  srv4_step is lif now oob (Some req) = (is', O4Sent d m) ->
  msg_type req = 1 /\ msg_type m = 2 \/ msg_type req = 3 /\ msg_type m = 5.
Proof. exact (@AsmRefine.assembled_reply4_type). Qed.
Print Assumptions assembled_reply4_type.

(* Non-vacuity (proofs/Server4Examples.v): a DISCOVER through the chain [mark; set yiaddr; stop; mark]
   on an unbound listener is answered by a link-level OFFER on the receiving interface, the fourth
   handler never runs; a relayed REQUEST turned into a NAK goes to the relay agent on port 67;
   header-preserving handlers exist; LoadPlugins skips a DHCPv6-only plugin and fails on a failing setup. *)
Example hypotheses_satisfiable :
  (exists m, handle4 ex_chain 0 (Some 5%Z) (Some ex_req) = (Sent (DL2 5%Z) m, [(0%nat, Some (upd_opt (reply_stub ex_req) 53 [2]));
      (1%nat, Some (upd_opt (upd_opt (reply_stub ex_req) 53 [2]) 225 [1]));
      (2%nat, Some (set_yiaddr (upd_opt (upd_opt (reply_stub ex_req) 53 [2]) 225 [1]) [10;0;0;9]))]) /\
    m_yiaddr m = [10;0;0;9] /\ msg_type m = 2 /\ m_xid m = 305419896 /\ opt_get 61 (m_opts m) = Some [1;2;3]) /\
  Forall hdr_preserving (map beh_fn [BMark 1; BSetYi [10;0;0;9]; BNak; BStopNil]) /\
  load_plugins reg None (Some [(n_vtest, [[109]; [51]]); (n_v6only, []); (n_dual, [])]) = Some ([BMark 3; BPass], []) /\
  load_plugins reg (Some [(n_fail, [[101]])]) (Some [(n_vtest, [[112]])]) = None.
Proof. exact (conj ex_run4 (conj ex_hdr_preserving (conj ex_load ex_load_err))). Qed.
