(* PluginRun.v — executable cases for the stateless-plugin correspondence (C14, C17, C19) *)
From Verif Require Import Base Net Msg4 Msg6 IpcalcRun Chain Server4 Server4Run Server6 Plugins4 Plugins6 Setup.
Open Scope N_scope.

(* answers of the real text parsers for the strings of one case *)
Record tables := {
  t_ip : list (bytes * option bytes);
  t_cidr : list (bytes * option (bytes * bytes));
  t_dur : list (bytes * option Z);
  t_atoi : list (bytes * option Z);
  t_mac : list (bytes * option bytes);
  t_url : list (bytes * option url) }.

Fixpoint lookup {A} (k : bytes) (l : list (bytes * option A)) : option A :=
  match l with
  | [] => None
  | (k', v) :: l' => if bytes_eqb k' k then v else lookup k l'
  end.

Definition oracles_of (t : tables) : oracles :=
  {| o_parse_ip := fun s => lookup s (t_ip t); o_parse_cidr := fun s => lookup s (t_cidr t);
     o_parse_dur := fun s => lookup s (t_dur t); o_atoi := fun s => lookup s (t_atoi t);
     o_parse_mac := fun s => lookup s (t_mac t); o_url := fun s => lookup s (t_url t) |}.

Inductive obs4 := O4Panic | O4Nil (stop : bool) | O4Resp (r : msg4) (stop : bool).
Inductive obs6 := O6Panic | O6Nil (stop : bool) | O6Resp (r : pkt6) (stop : bool).

Inductive pcase :=
| CP4 (n : pname) (args : list bytes) (t : tables) (setup_ok : bool) (runs : list (msg4 * msg4 * obs4))
| CP6 (n : pname) (args : list bytes) (t : tables) (setup_ok : bool) (runs : list (pkt6 * pkt6 * obs6)).

Definition check_run4 (p : plug4) (x : msg4 * msg4 * obs4) : bool :=
  let '(req, resp, o) := x in
  match plug4_handler p req resp, o with
  | Panic, O4Panic => true
  | Ok (None, st), O4Nil st' => Bool.eqb st st'
  | Ok (Some r, st), O4Resp r' st' => Bool.eqb st st' && msg4_eqb (wire4 r) r'
  | _, _ => false
  end.

Definition check_run6 (p : plug6) (x : pkt6 * pkt6 * obs6) : bool :=
  let '(req, resp, o) := x in
  match plug6_handler p req resp, o with
  | Panic, O6Panic => true
  | Ok (None, st), O6Nil st' => Bool.eqb st st'
  | Ok (Some r, st), O6Resp r' st' => Bool.eqb st st' && pkt6_eqb r r'
  | _, _ => false
  end.

Definition check_pcase (c : pcase) : bool :=
  match c with
  | CP4 n args t ok runs =>
      match setup4 (oracles_of t) n args with
      | SetErr => negb ok
      | SetOk p => ok && forallb (check_run4 p) runs
      end
  | CP6 n args t ok runs =>
      match setup6 (oracles_of t) n args with
      | None => false
      | Some SetErr => negb ok
      | Some (SetOk p) => ok && forallb (check_run6 p) runs
      end
  end.

Definition mismatches (l : list pcase) : list nat := mismatch_idx check_pcase l 0.
