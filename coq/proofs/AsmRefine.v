(* AsmRefine.v — the assembled server (model/Assembly.v) refines HandleMsg4 over pure handlers
   (model/Server4.v): at any moment each plugin instance IS a handler function, so every theorem of
   C11 / C13 / C15, stated for arbitrary (header-preserving) handlers, holds of the real chains -
   range and file plugin included. *)
From Coq Require Import Lia.
From Verif Require Import Base BaseProofs Net NetProofs Bitset Alloc Msg4 Chain Server4 Plugins4 RangePlugin FilePlugin
  PluginProofs Server4Proofs Assembly AssemblyProofs.
Open Scope N_scope.

(* the handler an instance is, at clock reading now and in its current state *)
Definition as_handler4 (now : Z) (i : inst4) : handler4 := fun req resp =>
  match snd (inst4_call now i req resp) with Ok x => x | _ => (None, true) end.

Lemma run_insts_chain now req : forall is resp idx is' r,
  run_insts (inst4_call now) is req resp = (is', Ok r) ->
  fst (run_chain (map (as_handler4 now) is) idx req resp) = r.
Proof.
  induction is as [|i is IH]; intros resp idx is' r H; cbn [run_insts run_chain map] in *.
  - injection H as _ <-. reflexivity.
  - unfold as_handler4 at 1. destruct (inst4_call now i req resp) as [i' o]. cbn [snd].
    destruct o as [[r1 stop]|e|]; try discriminate.
    destruct stop.
    + injection H as _ <-. reflexivity.
    + destruct (run_insts (inst4_call now) is req r1) as [is'' o'] eqn:E. injection H as _ ->.
      specialize (IH r1 (S idx) is'' r E).
      destruct (run_chain (map (as_handler4 now) is) (S idx) req r1) as [r' lg]. cbn [fst] in *. exact IH.
Qed.

Definition out4_of (o : outcome4) : out4 :=
  match o with O4Sent d m => Sent d m | O4Drop w => NoSend w | O4Panic => NoSend 0 end.

Theorem srv4_refines_handle4 is lif now oob parsed is' o :
  srv4_step is lif now oob parsed = (is', o) -> o <> O4Panic ->
  fst (handle4 (map (as_handler4 now) is) lif oob parsed) = out4_of o.
Proof.
  unfold srv4_step, handle4, start4. intros H Hnp.
  destruct parsed as [req|]; [|injection H as _ <-; reflexivity].
  destruct (negb (m_op req =? 1)); [injection H as _ <-; reflexivity|].
  set (st := if msg_type req =? 1 then Some (upd_opt (reply_stub req) 53 [2])
             else if msg_type req =? 3 then Some (upd_opt (reply_stub req) 53 [5]) else None) in *.
  destruct st as [r0|]; [|injection H as _ <-; reflexivity].
  destruct (run_insts (inst4_call now) is req (Some r0)) as [is1 o1] eqn:E.
  destruct o1 as [r|e|]; [|injection H as _ <-; contradiction|injection H as _ <-; contradiction].
  pose proof (run_insts_chain now req is (Some r0) 0%nat is1 r E) as Hc.
  destruct (run_chain (map (as_handler4 now) is) 0 req (Some r0)) as [r' lg]. cbn [fst] in Hc. subst r'.
  destruct r as [rsp|]; [|injection H as _ <-; reflexivity].
  destruct (peer4 req rsp) as [[ip port] l2].
  destruct l2.
  - destruct (if ip_equal ip bcast4 || is_link_local ip || true then pick_if lif oob else None) as [i|];
      [|injection H as _ <-; reflexivity].
    destruct (ser_ok rsp); injection H as _ <-; [reflexivity|contradiction].
  - destruct (ser_ok rsp); injection H as _ <-; [reflexivity|contradiction].
Qed.

(* every instance, valid or not, in any state, is a header-preserving handler *)
Lemma inst_hdr_preserving now i : hdr_preserving (as_handler4 now i).
Proof.
  intros req r. unfold as_handler4. destruct i as [p|st|t]; cbn [inst4_call snd].
  - pose proof (plug4_hdr_preserving p req r) as H. unfold lift4 in H. exact H.
  - destruct (range_handler st now req r) as [st' o] eqn:E. cbn [snd].
    destruct o as [[[m|] stop]|e|]; try reflexivity.
    + destruct (range_reply_form _ _ _ _ _ _ _ E) as (ip & v & ->).
      destruct (hdr_eq_yi r (to4_or_nil ip)) as [H1 H2].
      split.
      * eapply hdr_eq_trans; [apply hdr_eq_upd; discriminate|exact H1].
      * left. rewrite msg_type_upd by discriminate. exact H2.
    + (* nil: only with stop *)
      unfold range_handler in E.
      destruct (recs_get (mac_string (m_chaddr req)) (rs_recs st)) as [rc|].
      * destruct (rc_exp rc * NS <? now + rs_lease st)%Z; discriminate.
      * destruct (allocate4 (rs_alloc st) []) as [a' [x|er|]]; try discriminate. injection E as _ <-. reflexivity.
  - unfold file_handler4. destruct (ft_get (mac_string (m_chaddr req)) t) as [ip|].
    + destruct (hdr_eq_yi r ip) as [H1 H2]. split; [exact H1|left; exact H2].
    + split; [apply hdr_eq_refl|left; reflexivity].
Qed.

(* C11 for the assembled server: whatever chain of instances is configured, in whatever state, a
   reply that is sent answers a BOOTREQUEST of type DISCOVER / REQUEST and carries its xid, htype,
   chaddr, flags, giaddr, options 61 and 82, and is an OFFER / ACK or a NAK *)
Theorem assembled_reply4_matches_request is lif now oob req is' d m :
  srv4_step is lif now oob (Some req) = (is', O4Sent d m) ->
  m_op req = 1 /\ m_op m = 2 /\ m_xid m = m_xid req /\ m_htype m = m_htype req /\ m_chaddr m = m_chaddr req /\
  m_flags m = m_flags req /\ m_giaddr m = m_giaddr req /\
  (forall c, c = 61 \/ c = 82 -> opt_get c (m_opts m) =
     match opt_get c (m_opts req) with Some (b :: v) => Some (b :: v) | _ => None end) /\
  ((msg_type req = 1 /\ (msg_type m = 2 \/ msg_type m = 6)) \/ (msg_type req = 3 /\ (msg_type m = 5 \/ msg_type m = 6))).
Proof.
  intros H. pose proof (srv4_refines_handle4 _ _ _ _ _ _ _ H ltac:(discriminate)) as R. cbn [out4_of] in R.
  destruct (handle4 (map (as_handler4 now) is) lif oob (Some req)) as [o lg] eqn:E. cbn [fst] in R. subst o.
  apply (reply4_matches_request (map (as_handler4 now) is) lif oob req d m lg); [|exact E].
  apply Forall_forall. intros h Hh. apply in_map_iff in Hh. destruct Hh as (i & <- & _). apply inst_hdr_preserving.
Qed.

(* the bridge in the form the C13 / C15 theorems consume: a reply sent by the assembled server is a
   reply sent by HandleMsg4 over the instances' handler functions (so dest4_relay, dest4_nak,
   dest4_ciaddr, dest4_bflag, dest4_port_and_pin, chain_order, ... apply to it) *)
Theorem assembled_sent_is_handle4_sent is lif now oob req is' d m :
  srv4_step is lif now oob (Some req) = (is', O4Sent d m) ->
  exists log, handle4 (map (as_handler4 now) is) lif oob (Some req) = (Sent d m, log).
Proof.
  intros H. pose proof (srv4_refines_handle4 _ _ _ _ _ _ _ H ltac:(discriminate)) as R. cbn [out4_of] in R.
  destruct (handle4 (map (as_handler4 now) is) lif oob (Some req)) as [o lg]. cbn [fst] in R. subst o.
  exists lg. reflexivity.
Qed.

(* C15 for the assembled server, one row as an example of the transfer: a relayed request is
   answered to the relay agent on the server port *)
Theorem assembled_dest4_relay is lif now oob req is' d m :
  srv4_step is lif now oob (Some req) = (is', O4Sent d m) ->
  is_unspecified (m_giaddr req) = false ->
  d = DUdp (m_giaddr req) 67%Z (if ip_equal (m_giaddr req) bcast4 || is_link_local (m_giaddr req) then pick_if lif oob else None).
Proof.
  intros H Hg. destruct (assembled_sent_is_handle4_sent _ _ _ _ _ _ _ _ H) as (lg & E).
  exact (dest4_relay _ _ _ _ _ _ _ E Hg).
Qed.

(* ---- the message type: no real instance touches option 53, so the assembled server answers a
   DISCOVER with an OFFER and a REQUEST with an ACK, exactly (a NAK can only come from a handler
   outside the built-in set) ---- *)
Definition type_preserving (h : handler4) : Prop :=
  forall req r, match h req (Some r) with (Some r', _) => msg_type r' = msg_type r | (None, stop) => stop = true end.

Lemma plug4_type_preserving p : type_preserving (lift4 p).
Proof.
  intros req r. unfold lift4.
  assert (U : forall c v, c <> 53 -> msg_type (upd_opt r c v) = msg_type r) by (intros c v H; apply msg_type_upd; exact H).
  destruct p; cbn [plug4_handler].
  - destruct (is_requested 6 req); [apply U; discriminate|reflexivity].
  - destruct (is_requested 26 req); [apply U; discriminate|reflexivity].
  - apply U; discriminate.
  - apply U; discriminate.
  - apply U; discriminate.
  - destruct routes; [reflexivity|]. destruct (enc_routes _); cbn [bind]; [apply U; discriminate|reflexivity|reflexivity].
  - destruct (negb (m_op req =? 1)); [reflexivity|]. destruct (opt_has 51 (m_opts r)); [reflexivity|apply U; discriminate].
  - destruct (is_listed 108 req); [apply U; discriminate|reflexivity].
  - destruct (negb (msg_type r =? 2) || negb (is_unspecified (m_yiaddr r))); [reflexivity|].
    destruct (opt_get 116 (m_opts req)) as [[|? [|? ?]]|]; try reflexivity. apply U; discriminate.
  - destruct opt67 as [v67|]; [|reflexivity].
    assert (R1 : forall r1, msg_type r1 = msg_type r ->
                 msg_type (if is_requested 67 req then upd_opt r1 67 v67 else r1) = msg_type r).
    { intros r1 A. destruct (is_requested 67 req); [|exact A]. rewrite msg_type_upd by discriminate. exact A. }
    destruct opt66 as [v66|]; apply R1; [|reflexivity]. destruct (is_requested 66 req); [apply U; discriminate|reflexivity].
  - reflexivity.
  - destruct (negb (m_op req =? 1)); [reflexivity|].
    repeat match goal with |- context [if ?c then _ else _] => destruct c end; try reflexivity.
    rewrite msg_type_upd by discriminate. apply (hdr_eq_si r).
Qed.

Lemma inst_type_preserving now i : type_preserving (as_handler4 now i).
Proof.
  intros req r. unfold as_handler4. destruct i as [p|st|t]; cbn [inst4_call snd].
  - pose proof (plug4_type_preserving p req r) as H. unfold lift4 in H. exact H.
  - destruct (range_handler st now req r) as [st' o] eqn:E. cbn [snd].
    destruct o as [[[m|] stop]|e|]; try reflexivity.
    + destruct (range_reply_form _ _ _ _ _ _ _ E) as (ip & v & ->).
      rewrite msg_type_upd by discriminate. apply (hdr_eq_yi r).
    + unfold range_handler in E.
      destruct (recs_get (mac_string (m_chaddr req)) (rs_recs st)) as [rc|].
      * destruct (rc_exp rc * NS <? now + rs_lease st)%Z; discriminate.
      * destruct (allocate4 (rs_alloc st) []) as [a' [x|er|]]; try discriminate. injection E as _ <-. reflexivity.
  - unfold file_handler4. destruct (ft_get (mac_string (m_chaddr req)) t) as [ip|]; [apply (hdr_eq_yi r)|reflexivity].
Qed.

Lemma chain_keeps_type hs : Forall type_preserving hs -> forall k req r0 m log,
  run_chain4 hs k req (Some r0) = (Some m, log) -> msg_type m = msg_type r0.
Proof.
  induction hs as [|h hs IH]; intros F k req r0 m log H; cbn [run_chain] in H.
  - injection H as <- _. reflexivity.
  - pose proof (Forall_inv F req r0) as Hh. destruct (h req (Some r0)) as [o stop].
    destruct stop.
    + injection H as -> _. exact Hh.
    + destruct o as [r1|]; [|discriminate Hh].
      destruct (run_chain hs (S k) req (Some r1)) as [r' lg] eqn:E. injection H as -> _.
      rewrite (IH (Forall_inv_tail F) _ _ _ _ _ E). exact Hh.
Qed.

(* C11, the type clause at full strength for the real chains: an OFFER for a DISCOVER, an ACK for
   a REQUEST - no built-in plugin turns a reply into anything else *)
Theorem assembled_reply4_type is lif now oob req is' d m :
  srv4_step is lif now oob (Some req) = (is', O4Sent d m) ->
  (msg_type req = 1 /\ msg_type m = 2) \/ (msg_type req = 3 /\ msg_type m = 5).
Proof.
  intros H. destruct (assembled_sent_is_handle4_sent _ _ _ _ _ _ _ _ H) as (lg & E).
  destruct (reply4_only_to_requests _ _ _ _ _ _ _ E) as (rq & r0 & Hp & Hop & Ht & Hs & Hc).
  injection Hp as <-.
  assert (F : Forall type_preserving (map (as_handler4 now) is)).
  { apply Forall_forall. intros h Hh. apply in_map_iff in Hh. destruct Hh as (i & <- & _). apply inst_type_preserving. }
  pose proof (chain_keeps_type _ F _ _ _ _ _ Hc) as Hm.
  unfold Server4Proofs.start4 in Hs.
  destruct (msg_type req =? 1) eqn:E1.
  - injection Hs as <-. left. split; [apply N.eqb_eq; exact E1|]. rewrite Hm. apply msg_type_set.
  - destruct (msg_type req =? 3) eqn:E3; [|discriminate]. injection Hs as <-. right.
    split; [apply N.eqb_eq; exact E3|]. rewrite Hm. apply msg_type_set.
Qed.
