package main

// The receive loops themselves (listener4.Serve / listener6.Serve): a real socket on the loopback
// interface, bursts of datagrams of very different lengths sent back to back, replies captured by
// the sink.  The chain is stateless, so the reply to a datagram depends on nothing but its bytes:
// whatever the loop does with its receive buffers, every reply must equal the one obtained by
// handing the same bytes to HandleMsg4/HandleMsg6 directly.

import (
	"bytes"
	"fmt"
	"net"
	"sync"
	"time"

	"github.com/coredhcp/coredhcp/handler"
	"github.com/coredhcp/coredhcp/plugins/dns"
	"github.com/coredhcp/coredhcp/plugins/router"
	"github.com/coredhcp/coredhcp/plugins/serverid"
	"github.com/coredhcp/coredhcp/server"
	"github.com/insomniacslk/dhcp/dhcpv4"
	"github.com/insomniacslk/dhcp/dhcpv6"
	"github.com/insomniacslk/dhcp/iana"
	"golang.org/x/net/ipv4"
	"golang.org/x/net/ipv6"
)

func runServeLoop6(c *Ctx, rounds int) {
	r := c.R
	hSid, e1 := serverid.Plugin.Setup6("LL", "00:de:ad:be:ef:00")
	hDNS, e2 := dns.Plugin.Setup6("2001:db8::53")
	if e1 != nil || e2 != nil {
		return
	}
	hs := []handler.Handler6{hSid, hDNS}
	var mu sync.Mutex
	got := map[dhcpv6.TransactionID][][]byte{}
	sink := func(p []byte, cm *ipv6.ControlMessage, dst net.Addr) {
		if d, err := dhcpv6.FromBytes(p); err == nil {
			if m, err := d.GetInnerMessage(); err == nil {
				mu.Lock()
				got[m.TransactionID] = append(got[m.TransactionID], p)
				mu.Unlock()
			}
		}
	}
	l, err := server.VerifListen6(&net.UDPAddr{IP: net.IPv6loopback, Port: 0}, hs, sink)
	if err != nil {
		c.Count("serve-loop6:skipped-no-socket")
		return
	}
	done := make(chan struct{})
	go func() { l.Serve(); close(done) }()
	defer func() { l.CloseSocket(); <-done }()
	conn, err := net.DialUDP("udp6", nil, l.LocalAddr().(*net.UDPAddr))
	if err != nil {
		c.Count("serve-loop6:skipped-no-socket")
		return
	}
	defer conn.Close()
	var xid uint32
	for round := 0; round < rounds; round++ {
		// expected replies: the same bytes through HandleMsg6 directly
		want := map[dhcpv6.TransactionID][]byte{}
		var wmu sync.Mutex
		direct := server.NewVerifListener6(hs, net.Interface{}, func(p []byte, cm *ipv6.ControlMessage, dst net.Addr) {
			if d, err := dhcpv6.FromBytes(p); err == nil {
				if m, err := d.GetInnerMessage(); err == nil {
					wmu.Lock()
					want[m.TransactionID] = p
					wmu.Unlock()
				}
			}
		})
		var dgs [][]byte
		mustAnswer := map[dhcpv6.TransactionID]int{}
		var longDgs [][]byte
		n := 3 + r.Intn(30)
		for i := 0; i < n; i++ {
			xid++
			m := &dhcpv6.Message{MessageType: []dhcpv6.MessageType{dhcpv6.MessageTypeSolicit, dhcpv6.MessageTypeRequest, dhcpv6.MessageTypeInformationRequest}[r.Intn(3)]}
			m.TransactionID = dhcpv6.TransactionID{byte(xid >> 16), byte(xid >> 8), byte(xid)}
			m.AddOption(dhcpv6.OptClientID(&dhcpv6.DUIDLL{HWType: iana.HWTypeEthernet, LinkLayerAddr: net.HardwareAddr(r.Bytes(6))}))
			switch i % 3 { // short, short, long: lengths differ a lot from one datagram to the next
			case 2:
				m.AddOption(dhcpv6.OptRequestedOption(23, 24, 59, 60))
				vlen := 20 + r.Intn(400)
				if r.Pct(12) {
					vlen = []int{4000, 4096, 5000, 9000, 20000, 60000}[r.Intn(6)] // datagrams far beyond one Ethernet frame, up to the UDP limit
					m.MessageType = dhcpv6.MessageTypeSolicit                      // (a SOLICIT with a client identifier is answered by this chain whatever else it carries)
					mustAnswer[m.TransactionID] = vlen
				}
				code := dhcpv6.OptionCode(16) // vendor class: random bytes rarely parse - such a datagram is dropped, which is right
				if _, long := mustAnswer[m.TransactionID]; long {
					code = 250 // an option the library does not know: any payload is well-formed
				}
				m.AddOption(&dhcpv6.OptionGeneric{OptionCode: code, OptionData: r.Bytes(vlen)})
				m.AddOption(dhcpv6.OptElapsedTime(0))
				if m.MessageType == dhcpv6.MessageTypeSolicit {
					m.AddOption(&dhcpv6.OptionGeneric{OptionCode: dhcpv6.OptionRapidCommit}) // last option of the longest datagram
				}
			case 1:
				m.AddOption(dhcpv6.OptRequestedOption(23))
			}
			raw := m.ToBytes()
			if _, long := mustAnswer[m.TransactionID]; long {
				longDgs = append(longDgs, raw) // sent one by one after the burst: a socket's receive queue cannot hold a burst of such datagrams
				continue
			}
			dgs = append(dgs, raw)
			direct.Handle(raw, &ipv6.ControlMessage{}, &net.UDPAddr{IP: net.IPv6loopback, Port: 546})
		}
		direct.Close()
		mu.Lock()
		got = map[dhcpv6.TransactionID][][]byte{}
		mu.Unlock()
		for i, raw := range dgs { // back to back
			if i == 1 {
				conn.Write([]byte{})  // an empty datagram and a one-byte one in between: dropped, and nothing else changes
				conn.Write([]byte{1})
			}
			conn.Write(raw)
		}
		deadline := time.Now().Add(3 * time.Second)
		for time.Now().Before(deadline) {
			mu.Lock()
			k := len(got)
			mu.Unlock()
			if k >= len(want) {
				break
			}
			time.Sleep(2 * time.Millisecond)
		}
		time.Sleep(5 * time.Millisecond)
		for _, raw := range longDgs {
			var x dhcpv6.TransactionID
			copy(x[:], raw[1:4])
			conn.Write(raw)
			for dl := time.Now().Add(2 * time.Second); time.Now().Before(dl); time.Sleep(time.Millisecond) {
				mu.Lock()
				k := len(got[x])
				mu.Unlock()
				if k > 0 {
					break
				}
			}
		}
		c.Evals++
		c.Count("serve-loop6:round")
		mu.Lock()
		input := map[string]interface{}{"listener": "[::1] through listener6.Serve", "datagrams": len(dgs), "lengths": lens(dgs)}
		for x, w := range want {
			g := got[x]
			switch {
			case len(g) == 0:
				c.Violate("serve-loop-reply-missing", fmt.Sprintf("a datagram answered when handed to HandleMsg6 directly got no reply through the receive loop (transaction id %x)", x[:]), input)
			case len(g) > 1:
				c.Violate("serve-loop-reply-twice", fmt.Sprintf("%d replies with transaction id %x through the receive loop", len(g), x[:]), input)
			case !bytes.Equal(g[0], w):
				c.Violate("serve-loop-reply-differs", fmt.Sprintf("through the receive loop the reply to transaction id %x differs from the reply to the same bytes handled directly (receive buffer truncated, shared or reused while in use?): %x vs %x", x[:], g[0], w), input)
			}
		}
		for x := range got {
			if _, long := mustAnswer[x]; long {
				continue
			}
			if _, ok := want[x]; !ok {
				c.Violate("serve-loop-reply-unexpected", fmt.Sprintf("a reply with transaction id %x that direct handling does not produce", x[:]), input)
			}
		}
		for x, vlen := range mustAnswer {
			if len(got[x]) == 0 {
				c.Violate("serve-loop-long-datagram-unanswered", fmt.Sprintf("a SOLICIT with a client identifier and a %d-byte option of an unassigned code (transaction id %x) got no reply through the receive loop: datagrams up to the UDP limit must be read whole", vlen, x[:]), input)
			}
		}
		mu.Unlock()
	}
}

func lens(d [][]byte) []int {
	out := make([]int, len(d))
	for i := range d {
		out[i] = len(d[i])
	}
	return out
}

func runServeLoop4(c *Ctx, rounds int) {
	r := c.R
	hSid, e1 := serverid.Plugin.Setup4("10.7.0.254")
	hRouter, e2 := router.Plugin.Setup4("10.0.0.254")
	if e1 != nil || e2 != nil {
		return
	}
	hs := []handler.Handler4{hSid, hRouter}
	var mu sync.Mutex
	got := map[dhcpv4.TransactionID][][]byte{}
	sink := func(p []byte, cm *ipv4.ControlMessage, dst net.Addr) {
		if m, err := dhcpv4.FromBytes(p); err == nil {
			mu.Lock()
			got[m.TransactionID] = append(got[m.TransactionID], p)
			mu.Unlock()
		}
	}
	l, err := server.VerifListen4(&net.UDPAddr{IP: net.IPv4(127, 0, 0, 1), Port: 0}, hs, sink)
	if err != nil {
		c.Count("serve-loop4:skipped-no-socket")
		return
	}
	done := make(chan struct{})
	go func() { l.Serve(); close(done) }()
	defer func() { l.CloseSocket(); <-done }()
	conn, err := net.DialUDP("udp4", nil, l.LocalAddr().(*net.UDPAddr))
	if err != nil {
		c.Count("serve-loop4:skipped-no-socket")
		return
	}
	defer conn.Close()
	var xid uint32
	for round := 0; round < rounds; round++ {
		want := map[dhcpv4.TransactionID][]byte{}
		var wmu sync.Mutex
		direct := server.NewVerifListener4(hs, net.Interface{}, func(p []byte, cm *ipv4.ControlMessage, dst net.Addr) {
			if m, err := dhcpv4.FromBytes(p); err == nil {
				wmu.Lock()
				want[m.TransactionID] = p
				wmu.Unlock()
			}
		})
		var dgs [][]byte
		n := 3 + r.Intn(30)
		for i := 0; i < n; i++ {
			xid++
			s := req4spec{op: 1, mtype: []byte{[]byte{1, 3}[r.Intn(2)]}, chaddr: r.Bytes(6), xid: xid, bflag: true}
			if i%3 == 2 {
				s.opt61 = r.Bytes(9)
				s.opt82 = r.Bytes(12)
				s.extra = map[uint8][]byte{12: r.Bytes(40 + r.Intn(200)), 55: {1, 3, 6}}
			}
			raw := buildReq4(s)
			if i%3 == 1 { // a truncated datagram between complete ones: must not be completed from an earlier buffer
				raw = raw[:240+r.Intn(8)]
			}
			dgs = append(dgs, raw)
			direct.Handle(raw, &ipv4.ControlMessage{IfIndex: 1}, &net.UDPAddr{IP: net.IPv4(127, 0, 0, 1), Port: 68})
		}
		direct.Close()
		mu.Lock()
		got = map[dhcpv4.TransactionID][][]byte{}
		mu.Unlock()
		for i, raw := range dgs {
			if i == 1 {
				conn.Write([]byte{})
				conn.Write([]byte{1})
			}
			conn.Write(raw)
		}
		deadline := time.Now().Add(3 * time.Second)
		for time.Now().Before(deadline) {
			mu.Lock()
			k := len(got)
			mu.Unlock()
			if k >= len(want) {
				break
			}
			time.Sleep(2 * time.Millisecond)
		}
		time.Sleep(5 * time.Millisecond)
		c.Evals++
		c.Count("serve-loop4:round")
		mu.Lock()
		input := map[string]interface{}{"listener": "127.0.0.1 through listener4.Serve", "datagrams": len(dgs), "lengths": lens(dgs)}
		for x, w := range want {
			g := got[x]
			switch {
			case len(g) == 0:
				c.Violate("serve-loop-reply-missing", fmt.Sprintf("a datagram answered when handed to HandleMsg4 directly got no reply through the receive loop (transaction id %x)", x[:]), input)
			case len(g) > 1:
				c.Violate("serve-loop-reply-twice", fmt.Sprintf("%d replies with transaction id %x through the receive loop", len(g), x[:]), input)
			case !bytes.Equal(g[0], w):
				c.Violate("serve-loop-reply-differs", fmt.Sprintf("through the receive loop the reply to transaction id %x differs from the reply to the same bytes handled directly: %x vs %x", x[:], g[0], w), input)
			}
		}
		for x := range got {
			if _, ok := want[x]; !ok {
				c.Violate("serve-loop-reply-unexpected", fmt.Sprintf("a reply with transaction id %x that direct handling does not produce (a truncated datagram completed from an earlier buffer?)", x[:]), input)
			}
		}
		mu.Unlock()
	}
}
