(* C04 — Allocators never hand out overlapping blocks.
   run stepN a0 ops : the outputs of a history on the model of the allocator (proved to be the
   index-level allocator between two pure translations, and run against the Go code on every check);
   final4/final6 : the bitmap after a history; blk_ip a0 P x : base address of block x;
   valid6 a0 L P : a pool as net.ParseCIDR yields it (native IPv6 base aligned to /L, /P blocks).
   Schedules: Allocate and Free are single critical sections under the allocator's mutex
   (gen/Skeleton.v), so Conc.serialisable (C16) transfers these theorems to every interleaving. *)
From Verif Require Import Base BaseProofs Net NetProofs Bitset IdxAlloc BitsetProofs Ipcalc IpcalcProofs IpcalcRun Alloc AllocRun Alloc4Proofs Alloc6Proofs AllocTheorems AllocExamples.
Open Scope N_scope.

Theorem alloc4_no_double_issue :
  forall (s e : bytes) (a0 : a4),
  wf_bytes s ->
  wf_bytes e ->
  new4 s e = Ok a0 ->
  forall (ops : list aop) (i j : nat) (ip m1 m2 : bytes),
  (i < j)%nat ->
  nth_error (run step4 a0 ops) i = Some (RAlloc (Ok (ip, m1))) ->
  nth_error (run step4 a0 ops) j = Some (RAlloc (Ok (ip, m2))) ->
  exists (k : nat) (pip pm ip4 : bytes),
  (i < k < j)%nat /\
  nth_error ops k = Some (OFree pip pm) /\
  nth_error (run step4 a0 ops) k = Some (RFree (Ok tt)) /\
  to4 pip = Some ip4 /\ be_u32_of ip4 = be_val ip.
Proof. exact AllocTheorems.alloc4_no_double_issue. Qed.
Print Assumptions alloc4_no_double_issue.

Theorem alloc6_no_double_issue :
  forall (a0 : a6) (L P : N),
  valid6 a0 L P ->
  forall (ops : list aop) (i j : nat) (ip1 m1 ip2 m2 : bytes),
  Forall wf_op ops ->
  (i < j)%nat ->
  nth_error (run step6 a0 ops) i = Some (RAlloc (Ok (ip1, m1))) ->
  nth_error (run step6 a0 ops) j = Some (RAlloc (Ok (ip2, m2))) ->
  ~ (v ip1 + Bsz P <= v ip2 \/ v ip2 + Bsz P <= v ip1) ->
  exists (k : nat) (pip pm : bytes) (x : N),
  (i < k < j)%nat /\
  nth_error ops k = Some (OFree pip pm) /\
  nth_error (run step6 a0 ops) k = Some (RFree (Ok tt)) /\
  free_idx6 a0 pip pm = Some x /\ ip1 = blk_ip a0 P x /\ ip2 = blk_ip a0 P x.
Proof. exact AllocTheorems.alloc6_no_double_issue. Qed.
Print Assumptions alloc6_no_double_issue.

Theorem outstanding6_disjoint :
  forall (a0 : a6) (L P : N),
  valid6 a0 L P ->
  forall ops : list aop,
  Forall wf_op ops ->
  NoDup (bits (final6 a0 ops)) /\
  (forall x y : N,
  In x (bits (final6 a0 ops)) ->
  In y (bits (final6 a0 ops)) ->
  x <> y ->
  v (blk_ip a0 P x) + Bsz P <= v (blk_ip a0 P y) \/
  v (blk_ip a0 P y) + Bsz P <= v (blk_ip a0 P x)).
Proof. exact AllocTheorems.outstanding6_disjoint. Qed.
Print Assumptions outstanding6_disjoint.

Theorem blocks_disjoint :
  forall (a0 : a6) (L P : N),
  valid6 a0 L P ->
  forall x y : N,
  x < 2 ^ (P - L) ->
  y < 2 ^ (P - L) ->
  x <> y ->
  v (blk_ip a0 P x) + Bsz P <= v (blk_ip a0 P y) \/
  v (blk_ip a0 P y) + Bsz P <= v (blk_ip a0 P x).
Proof. exact AllocTheorems.blocks_disjoint. Qed.
Print Assumptions blocks_disjoint.

Theorem irun_no_double_issue :
  forall (b : bitset) (n : N) (ops : list iop) (i j : nat) (x : N),
  binv b n ->
  Forall (op_ok n) ops ->
  (i < j)%nat ->
  nth_error (irun b ops) i = Some (IAllocOk x) ->
  nth_error (irun b ops) j = Some (IAllocOk x) ->
  exists k : nat, (i < k < j)%nat /\ nth_error (irun b ops) k = Some (IFreeOk x).
Proof. exact BitsetProofs.irun_no_double_issue. Qed.
Print Assumptions irun_no_double_issue.


(* Non-vacuity: a concrete valid pool and a concrete non-trivial history meet the hypotheses
   (2001:db8:0:100::/56 in /64 blocks; 10.0.0.1-10.0.0.2), see proofs/AllocExamples.v *)
Example hypotheses_satisfiable :
  (new6 ex_pool (cidr_bytes 16 56) 64 = Ok ex_a6 /\ valid6 ex_a6 56 64) /\
  Forall wf_op ex_ops /\
  run step6 ex_a6 ex_ops =
    [RAlloc (Ok (blk 0, m64)); RFree (Ok tt); RAlloc (Ok (blk 0, m64));
     RAlloc (Ok (blk 7, cidr_bytes 16 72)); RFree (Err ENotInRange); RFree (Ok tt); RFree (Err EDoubleFree)] /\
  new4 [10;0;0;1] [10;0;0;2] = Ok ex_a4.
Proof. exact (conj ex_valid (conj ex_ops_wf (conj ex_run ex4_new))). Qed.
