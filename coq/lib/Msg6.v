(* Msg6.v — the parsed DHCPv6 packet (insomniacslk/dhcp dhcpv6.DHCPv6) as the models see it.
   A packet is a stack of relay layers (outermost first) around an innermost client/server
   message; the server only ever looks at the FIRST Relay Message option of a layer, so a layer
   is its header plus its other options.  Options are ordered lists of (code, payload bytes):
   DHCPv6 options may repeat (several IA_PD). *)
From Verif Require Import Base.
Open Scope N_scope.

Definition opts6 := list (N * bytes).

(* Options.GetOne: the first option with that code *)
Fixpoint o6_get (c : N) (o : opts6) : option bytes :=
  match o with
  | [] => None
  | (k, v) :: o' => if k =? c then Some v else o6_get c o'
  end.

(* Options.Get: all options with that code, in order *)
Definition o6_all (c : N) (o : opts6) : list bytes :=
  map snd (filter (fun kv => fst kv =? c) o).

(* Options.Add *)
Definition o6_add (c : N) (v : bytes) (o : opts6) : opts6 := o ++ [(c, v)].

(* Options.Update: replace the first option with that code, else append *)
Fixpoint o6_update (c : N) (v : bytes) (o : opts6) : opts6 :=
  match o with
  | [] => [(c, v)]
  | (k, w) :: o' => if k =? c then (c, v) :: o' else (k, w) :: o6_update c v o'
  end.

Record imsg := { i_type : N; i_xid : N; i_opts : opts6 }.
Record layer := { l_type : N; l_hop : N; l_link : bytes; l_peer : bytes; l_opts : opts6 }.
(* p_inner = None: the innermost relay layer carries no Relay Message option *)
Record pkt6 := { p_layers : list layer; p_inner : option imsg }.

Definition is_relay (p : pkt6) : bool := match p_layers p with [] => false | _ => true end.

(* option codes *)
Definition OPT_CLIENTID : N := 1.
Definition OPT_SERVERID : N := 2.
Definition OPT_IANA : N := 3.
Definition OPT_ORO : N := 6.
Definition OPT_RELAYMSG : N := 9.
Definition OPT_STATUS : N := 13.
Definition OPT_RAPID : N := 14.
Definition OPT_IFACEID : N := 18.
Definition OPT_IAPD : N := 25.
Definition OPT_REMOTEID : N := 37.

(* message types *)
Definition MT_SOLICIT : N := 1.
Definition MT_ADVERTISE : N := 2.
Definition MT_REQUEST : N := 3.
Definition MT_CONFIRM : N := 4.
Definition MT_RENEW : N := 5.
Definition MT_REBIND : N := 6.
Definition MT_REPLY : N := 7.
Definition MT_RELEASE : N := 8.
Definition MT_DECLINE : N := 9.
Definition MT_INFOREQ : N := 11.
Definition MT_RELAYFORW : N := 12.
Definition MT_RELAYREPL : N := 13.

Fixpoint opts6_eqb (a b : opts6) : bool :=
  match a, b with
  | [], [] => true
  | (k, v) :: a', (k', v') :: b' => (k =? k') && bytes_eqb v v' && opts6_eqb a' b'
  | _, _ => false
  end.

Definition imsg_eqb (a b : imsg) : bool :=
  (i_type a =? i_type b) && (i_xid a =? i_xid b) && opts6_eqb (i_opts a) (i_opts b).

Definition layer_eqb (a b : layer) : bool :=
  (l_type a =? l_type b) && (l_hop a =? l_hop b) && bytes_eqb (l_link a) (l_link b) &&
  bytes_eqb (l_peer a) (l_peer b) && opts6_eqb (l_opts a) (l_opts b).

Fixpoint layers_eqb (a b : list layer) : bool :=
  match a, b with
  | [], [] => true
  | x :: a', y :: b' => layer_eqb x y && layers_eqb a' b'
  | _, _ => false
  end.

Definition pkt6_eqb (a b : pkt6) : bool :=
  layers_eqb (p_layers a) (p_layers b) &&
  match p_inner a, p_inner b with
  | None, None => true
  | Some x, Some y => imsg_eqb x y
  | _, _ => false
  end.
