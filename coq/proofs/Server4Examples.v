(* Server4Examples.v — concrete runs showing the hypotheses of the C11/C13/C15 theorems are met *)
From Verif Require Import Base Net Msg4 Chain ChainProofs Server4 Server4Run Server4Proofs.
Open Scope N_scope.

Definition ex_req : msg4 :=
  {| m_op := 1; m_htype := 1; m_hops := 0; m_xid := 305419896; m_secs := 0; m_flags := 0;
     m_ciaddr := zero4; m_yiaddr := zero4; m_siaddr := zero4; m_giaddr := zero4;
     m_chaddr := [2;0;0;0;0;1]; m_sname := []; m_file := [];
     m_opts := [(53, [1]); (61, [1;2;3]); (82, [9;9])] |}.

(* DISCOVER, chain [mark; set yiaddr; stop; mark]: the fourth handler never runs, the OFFER goes
   out as a link-level unicast on the receiving interface 5 of an unbound listener *)
Definition ex_chain : list handler4 := map beh_fn [BMark 1; BSetYi [10;0;0;9]; BStop 2; BMark 3].

Lemma ex_run4 :
  exists m, handle4 ex_chain 0 (Some 5%Z) (Some ex_req) = (Sent (DL2 5%Z) m, [(0%nat, Some (upd_opt (reply_stub ex_req) 53 [2]));
      (1%nat, Some (upd_opt (upd_opt (reply_stub ex_req) 53 [2]) 225 [1]));
      (2%nat, Some (set_yiaddr (upd_opt (upd_opt (reply_stub ex_req) 53 [2]) 225 [1]) [10;0;0;9]))]) /\
    m_yiaddr m = [10;0;0;9] /\ msg_type m = 2 /\ m_xid m = 305419896 /\ opt_get 61 (m_opts m) = Some [1;2;3].
Proof. eexists. vm_compute. repeat split; reflexivity. Qed.

(* relayed REQUEST answered with a NAK: to the relay agent, port 67, not pinned *)
Lemma ex_relay :
  fst (handle4 (map beh_fn [BNak]) 3 None
        (Some {| m_op := 1; m_htype := 1; m_hops := 1; m_xid := 7; m_secs := 0; m_flags := 32768;
                 m_ciaddr := zero4; m_yiaddr := zero4; m_siaddr := zero4; m_giaddr := [10;1;2;3];
                 m_chaddr := [2;0;0;0;0;1]; m_sname := []; m_file := []; m_opts := [(53, [3])] |})) =
  Sent (DUdp [10;1;2;3] 67%Z None)
       {| m_op := 2; m_htype := 1; m_hops := 0; m_xid := 7; m_secs := 0; m_flags := 32768;
          m_ciaddr := zero4; m_yiaddr := zero4; m_siaddr := zero4; m_giaddr := [10;1;2;3];
          m_chaddr := [2;0;0;0;0;1]; m_sname := []; m_file := []; m_opts := [(53, [6])] |}.
Proof. vm_compute. reflexivity. Qed.

Lemma ex_hdr_preserving : Forall hdr_preserving (map beh_fn [BMark 1; BSetYi [10;0;0;9]; BNak; BStopNil]).
Proof.
  cbn [map]. apply Forall_cons; [|apply Forall_cons; [|apply Forall_cons; [|apply Forall_cons; [|apply Forall_nil]]]];
    intros req r; cbn [beh_fn].
  - split; [apply hdr_eq_upd; discriminate|left; apply msg_type_upd; discriminate].
  - split; [apply (hdr_eq_yi r)|left; apply (hdr_eq_yi r)].
  - split; [apply hdr_eq_upd; discriminate|right; apply msg_type_set].
  - reflexivity.
Qed.

(* LoadPlugins on the synthetic registry: a DHCPv6-only plugin listed for DHCPv4 is skipped *)
Lemma ex_load : load_plugins reg None (Some [(n_vtest, [[109]; [51]]); (n_v6only, []); (n_dual, [])]) = Some ([BMark 3; BPass], []).
Proof. vm_compute. reflexivity. Qed.
Lemma ex_load_err : load_plugins reg (Some [(n_fail, [[101]])]) (Some [(n_vtest, [[112]])]) = None.
Proof. vm_compute. reflexivity. Qed.
