#!/usr/bin/env python3
"""Regenerates MANIFEST.json from checkconf.py (single source of truth for the checks)."""
import json, sys, os
sys.path.insert(0, os.path.dirname(os.path.abspath(__file__)))
from checkconf import PROPS, TRUSTED_COMMON
ids = [json.loads(l)['id'] for l in open('properties.jsonl')]
checks, na = [], []
for pid in ids:
    c = PROPS.get(pid)
    if not c or c.get('unclaimed'):
        na.append({'property_id': pid, 'reason': (c or {}).get('unclaimed') or
                   'not claimed yet: the Coq model, theorems and correspondence harness for this property are not built at this commit (work in progress, see DESIGN.md section 11)'})
        continue
    checks.append({
        'property_id': pid,
        'quick_cmd': './check %s --tier quick' % pid,
        'thorough_cmd': './check %s --tier thorough' % pid,
        'evidence_file': 'evidence/%s.json' % pid,
        'replay_cmd_template': './check %s --replay {path}' % pid,
        'engine': 'coq-proof+correspondence',
        'level_claimed': {'category': 'proof', 'text': c['level_text'], 'design_ref': c.get('design_ref', 'DESIGN.md section 5, ' + pid)},
        'level_note': c['level_note'],
        'technique': c.get('technique', 'machine-checked proof in Coq 8.16 over an executable Gallina model; model tied to the code by differential correspondence (and go2v regeneration where stated)'),
    })
m = {
    'version': 1,
    'setup_cmd': './setup',
    'hooks': {
        'guard': 'verif (Go build tag)',
        'enable': 'go build -tags verif (harness/cmd/implrun is built against /repo through a replace directive)',
        'baseline_off_cmd': 'cd /repo && GOFLAGS=-mod=mod GOPROXY=off GOSUMDB=off GOTOOLCHAIN=local go test -vet=off -count=1 ./...',
        'source_commits': json.load(open('hooks.json'))['source_commits'] if os.path.exists('hooks.json') else [],
        'add_only': True,
    },
    'engines': [{
        'name': 'coq-proof+correspondence', 'path': 'check',
        'serves_properties': [c['property_id'] for c in checks],
        'kind_free_text': 'Coq 8.16.1 development (coq/) with theorems per property in coq/props; go2v regenerates coq/gen from the Go source; implrun runs the implementation on generated inputs/histories and the same cases are evaluated by vm_compute on the model; monitors restate the property on the implementation to search for a concrete failing input',
    }],
    'checks': checks,
    'not_applicable': na,
    'notes': 'All checks: exit 0 = held; exit 1 + VIOLATION line; exit 2 = BUILD-ERROR (tree does not compile). VERIF_SEED and VERIF_TIER honoured. Known findings: known_findings.txt.',
}
json.dump(m, open('MANIFEST.json', 'w'), indent=1)
print('claimed:', [c['property_id'] for c in checks], 'unclaimed:', len(na))
