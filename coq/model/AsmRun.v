(* AsmRun.v — executable cases for the whole-server correspondence (C01): a configuration (chain
   of plugin instances built by the models of their set-up functions), a history of parsed
   datagrams, and what the implementation did with each (destination, reply, drop, panic). *)
From Verif Require Import Base Net Msg4 Msg6 IpcalcRun Chain Server4 Server4Run Server6 Plugins4 Plugins6 Setup PluginRun
  RangePlugin FilePlugin PrefixPlugin Assembly.
Open Scope N_scope.

(* ---------- DHCPv4 ---------- *)
Inductive ispec4 :=
| SPlug (n : pname) (args : list bytes)
| SRange (s e : bytes) (lease : Z)
| SFile (data : bytes).

Definition mk_inst4 (T : tables) (sp : ispec4) : option inst4 :=
  match sp with
  | SPlug n args => match setup4 (oracles_of T) n args with SetOk p => Some (I4Plug p) | SetErr => None end
  | SRange s e lease => match range_setup s e lease [] with Ok st => Some (I4Range st) | _ => None end
  | SFile data => match load_file (oracles_of T) false data with Some l => Some (I4File (Some l)) | None => None end
  end.

Fixpoint mk_all {A B} (f : A -> option B) (l : list A) : option (list B) :=
  match l with
  | [] => Some []
  | x :: l' => match f x, mk_all f l' with Some y, Some ys => Some (y :: ys) | _, _ => None end
  end.

Inductive aobs4 :=
| AUdp (ip : bytes) (port : Z) (ifx : option Z) (m : msg4)
| AL2 (ifx : Z)
| ADrop
| APanic.

Definition obs4_ok (o : outcome4) (a : aobs4) : bool :=
  match o, a with
  | O4Sent (DUdp ip port ifx) m, AUdp ip' port' ifx' m' =>
      bytes_eqb (norm_ip ip) ip' && (port =? port')%Z && optz_eqb ifx ifx' && msg4_eqb (wire4 m) m'
  | O4Sent (DL2 i) _, AL2 i' => (i =? i')%Z
  | O4Drop _, ADrop => true
  | O4Panic, APanic => true
  | _, _ => false
  end.

Fixpoint all2 {A B} (f : A -> B -> bool) (a : list A) (b : list B) : bool :=
  match a, b with
  | [], [] => true
  | x :: a', y :: b' => f x y && all2 f a' b'
  | _, _ => false
  end.

(* ---------- DHCPv6 ---------- *)
Inductive ispec6 :=
| S6Plug (n : pname) (args : list bytes)
| S6Prefix (pip pmask : bytes) (size : Z)
| S6File (data : bytes).

Definition mk_inst6 (T : tables) (sp : ispec6) : option inst6 :=
  match sp with
  | S6Plug n args => match setup6 (oracles_of T) n args with Some (SetOk p) => Some (I6Plug p) | _ => None end
  | S6Prefix pip pmask size => match prefix_setup pip pmask size with Ok st => Some (I6Prefix st) | _ => None end
  | S6File data => match load_file (oracles_of T) true data with Some l => Some (I6File (Some l)) | None => None end
  end.

(* IA_PD options travel between harness and model in a canonical form instead of the wire form
   (the library's decoding of IA_PD is not modelled):
     request:  IAID (4 bytes), then per IAPrefix hint: 0 (nil prefix) | 1, len, IP bytes, len, mask bytes
     reply:    IAID (4 bytes), then per delegated prefix: IP (16 bytes), mask (16 bytes) *)
Fixpoint dec_hints (fuel : nat) (l : bytes) : list hint :=
  match fuel with
  | O => []
  | S f =>
      match l with
      | 0 :: l' => None :: dec_hints f l'
      | 1 :: n :: l' =>
          let ip := firstn (N.to_nat n) l' in
          match skipn (N.to_nat n) l' with
          | m :: l'' => Some (ip, firstn (N.to_nat m) l'') :: dec_hints f (skipn (N.to_nat m) l'')
          | [] => [Some (ip, [])]
          end
      | _ => []
      end
  end.

Definition dec_pds_run (m : imsg) : list (bytes * list hint) :=
  map (fun v => (firstn 4 v, dec_hints (length v) (skipn 4 v))) (o6_all OPT_IAPD (i_opts m)).

Definition enc_iapd_run (ia : bytes * list lease) : bytes :=
  fst ia ++ flat_map (fun l => ls_ip l ++ ls_mask l) (snd ia).

Inductive aobs6 :=
| A6Sent (payload : pkt6) (ip : bytes) (port : Z) (ifx : option Z)
| A6Drop
| A6Panic.

Definition obs6_ok (o : outcome6) (a : aobs6) : bool :=
  match o, a with
  | O6Sent p ip port ifx, A6Sent p' ip' port' ifx' =>
      pkt6_eqb p p' && bytes_eqb ip ip' && (port =? port')%Z && optz_eqb ifx ifx'
  | O6Drop _, A6Drop => true
  | O6Panic, A6Panic => true
  | _, _ => false
  end.

Inductive acase :=
| CAsm4 (T : tables) (chain : list ispec4) (lif : Z) (h : list dgram4) (obs : list aobs4)
| CAsm6 (T : tables) (chain : list ispec6) (lif : Z) (h : list dgram6) (obs : list aobs6).

Definition check_acase (c : acase) : bool :=
  match c with
  | CAsm4 T chain lif h obs =>
      match mk_all (mk_inst4 T) chain with
      | Some is => all2 obs4_ok (snd (srv4_run is lif h)) obs
      | None => false            (* the implementation accepted this configuration *)
      end
  | CAsm6 T chain lif h obs =>
      match mk_all (mk_inst6 T) chain with
      | Some is => all2 obs6_ok (snd (srv6_run dec_pds_run enc_iapd_run is lif h)) obs
      | None => false
      end
  end.

Definition mismatches (l : list acase) : list nat := mismatch_idx check_acase l 0.
