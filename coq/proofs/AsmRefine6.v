(* AsmRefine6.v — the DHCPv6 half of the refinement: the assembled server's HandleMsg6 is handle6
   over the instances' handler functions, and every instance (stateless plugin, prefix plugin,
   file plugin) keeps the identity of the reply (type, transaction id, client identifier, Rapid
   Commit), so C12's reply6_matches_request holds of the real chains. *)
From Coq Require Import Lia.
From Verif Require Import Base BaseProofs Net NetProofs Msg6 Chain Server4 Server6 Plugins6 FilePlugin PrefixPlugin
  Server6Proofs Assembly.
Open Scope N_scope.

Section Gen.
Context {I Q R : Type} (call : I -> Q -> option R -> I * res (option R * bool)).
Definition as_handler (i : I) : handler Q R := fun req resp =>
  match snd (call i req resp) with Ok x => x | _ => (None, true) end.

Lemma run_insts_chain_gen req : forall is resp idx is' r,
  run_insts call is req resp = (is', Ok r) ->
  fst (run_chain (map as_handler is) idx req resp) = r.
Proof.
  induction is as [|i is IH]; intros resp idx is' r H; cbn [run_insts run_chain map] in *.
  - injection H as _ <-. reflexivity.
  - unfold as_handler at 1. destruct (call i req resp) as [i' o]. cbn [snd].
    destruct o as [[r1 stop]|e|]; try discriminate.
    destruct stop.
    + injection H as _ <-. reflexivity.
    + destruct (run_insts call is req r1) as [is'' o'] eqn:E. injection H as _ ->.
      specialize (IH r1 (S idx) is'' r E).
      destruct (run_chain (map as_handler is) (S idx) req r1) as [r' lg]. cbn [fst] in *. exact IH.
Qed.
End Gen.

Section V6.
Variable dec_pds : imsg -> list (bytes * list hint).
Variable enc_iapd : bytes * list lease -> bytes.

Definition as_handler6 (now : Z) : inst6 -> handler6 := as_handler (inst6_call dec_pds enc_iapd now).

Definition out6_of (o : outcome6) : out6 :=
  match o with O6Sent p ip port ifx => Sent6 p ip port ifx | O6Drop w => NoSend6 w | O6Panic => NoSend6 0 end.

Theorem srv6_refines_handle6 is lif now oob pip pport parsed is' o :
  srv6_step dec_pds enc_iapd is lif now oob pip pport parsed = (is', o) -> o <> O6Panic ->
  fst (handle6 (map (as_handler6 now) is) lif oob pip pport parsed) = out6_of o.
Proof.
  unfold srv6_step, handle6. intros H Hnp.
  destruct parsed as [d|]; [|injection H as _ <-; reflexivity].
  destruct (p_inner d) as [msg|]; [|injection H as _ <-; reflexivity].
  destruct (stub6 msg) as [r0|]; [|injection H as _ <-; reflexivity].
  destruct (run_insts (inst6_call dec_pds enc_iapd now) is d (Some {| p_layers := []; p_inner := Some r0 |})) as [is1 o1] eqn:E.
  destruct o1 as [r|e|]; [|injection H as _ <-; contradiction|injection H as _ <-; contradiction].
  pose proof (run_insts_chain_gen (inst6_call dec_pds enc_iapd now) d is _ 0%nat is1 r E) as Hc.
  unfold as_handler6, handler6 in *.
  match goal with |- context [run_chain6 ?a ?b ?c ?e] =>
    assert (Hc' : fst (run_chain6 a b c e) = r) by exact Hc; destruct (run_chain6 a b c e) as [r' lg] end.
  cbn [fst] in Hc'. subst r'.
  destruct r as [rsp|]; [|injection H as _ <-; reflexivity].
  destruct (is_relay d); [|injection H as _ <-; reflexivity].
  destruct (p_layers rsp) as [|l ls]; [|injection H as _ <-; reflexivity].
  destruct (p_inner rsp) as [rm|]; [|injection H as _ <-; reflexivity].
  destruct (p_layers d) as [|l0 ld]; [injection H as _ <-; reflexivity|].
  destruct (l_type l0 =? MT_RELAYFORW); injection H as _ <-; reflexivity.
Qed.

(* ---- every instance keeps the identity of the reply ---- *)
Lemma o6_get_add_other c k v o : c <> k -> o6_get c (o6_add k v o) = o6_get c o.
Proof.
  intros Hck. unfold o6_add. induction o as [|[k' w] o IH]; cbn [app o6_get].
  - destruct (k =? c) eqn:E; [apply N.eqb_eq in E; congruence|reflexivity].
  - destruct (k' =? c); [reflexivity|exact IH].
Qed.

Lemma o6_get_update_other c k v o : c <> k -> o6_get c (o6_update k v o) = o6_get c o.
Proof.
  intros Hck. induction o as [|[k' w] o IH]; cbn [o6_update o6_get].
  - destruct (k =? c) eqn:E; [apply N.eqb_eq in E; congruence|reflexivity].
  - destruct (k' =? k) eqn:E1.
    + apply N.eqb_eq in E1. subst k'. cbn [o6_get]. destruct (k =? c) eqn:E2; [apply N.eqb_eq in E2; congruence|reflexivity].
    + cbn [o6_get]. destruct (k' =? c); [reflexivity|exact IH].
Qed.

Lemma keeps_id_refl r : p_layers r = [] -> p_inner r <> None -> keeps_id r r.
Proof. intros Hl Hn. unfold keeps_id. rewrite Hl. destruct (p_inner r); [|contradiction]. intuition. Qed.

Lemma keeps_id_trans a b c : keeps_id a b -> keeps_id b c -> keeps_id a c.
Proof.
  unfold keeps_id. intros (A1 & A2 & A3) (B1 & B2 & B3). split; [exact A1|]. split; [exact B2|].
  destruct (p_inner a) as [x|]; [|contradiction]. destruct (p_inner b) as [y|]; [|contradiction].
  destruct (p_inner c) as [z|]; [|contradiction].
  destruct A3 as (P1 & P2 & P3 & P4). destruct B3 as (Q1 & Q2 & Q3 & Q4).
  repeat split; try congruence; tauto.
Qed.

Lemma keeps_id_inner a b : keeps_id a b -> p_layers a = [] /\ p_inner a <> None.
Proof. unfold keeps_id. intros (A1 & _ & A3). split; [exact A1|]. destruct (p_inner a); [discriminate|contradiction]. Qed.

Lemma resp_add_keeps c v r : c <> OPT_CLIENTID -> c <> OPT_RAPID -> p_layers r = [] -> p_inner r <> None ->
  keeps_id (resp_add c v r) r.
Proof.
  intros H1 H2 Hl Hn. unfold resp_add, keeps_id. rewrite Hl. destruct (p_inner r) as [m|]; [|contradiction].
  cbn [p_layers p_inner i_type i_xid i_opts]. split; [reflexivity|]. split; [reflexivity|].
  rewrite !o6_get_add_other by congruence. intuition.
Qed.

Lemma resp_update_keeps c v r : c <> OPT_CLIENTID -> c <> OPT_RAPID -> p_layers r = [] -> p_inner r <> None ->
  keeps_id (resp_update c v r) r.
Proof.
  intros H1 H2 Hl Hn. unfold resp_update, keeps_id. rewrite Hl. destruct (p_inner r) as [m|]; [|contradiction].
  cbn [p_layers p_inner i_type i_xid i_opts]. split; [reflexivity|]. split; [reflexivity|].
  rewrite !o6_get_update_other by congruence. intuition.
Qed.

Lemma nbp_fold_keeps v59 o60 codes : forall r, p_layers r = [] -> p_inner r <> None ->
  keeps_id (fold_left (fun r code =>
              if code =? 59 then resp_update 59 v59 r
              else if code =? 60 then match o60 with Some v60 => resp_update 60 v60 r | None => r end
              else r) codes r) r.
Proof.
  induction codes as [|c codes IH]; intros r Hl Hn; cbn [fold_left]; [apply keeps_id_refl; assumption|].
  set (r1 := if c =? 59 then resp_update 59 v59 r
             else if c =? 60 then match o60 with Some v60 => resp_update 60 v60 r | None => r end else r).
  assert (K : keeps_id r1 r).
  { unfold r1. destruct (c =? 59); [apply resp_update_keeps; try discriminate; assumption|].
    destruct (c =? 60); [|apply keeps_id_refl; assumption].
    destruct o60; [apply resp_update_keeps; try discriminate; assumption|apply keeps_id_refl; assumption]. }
  destruct (keeps_id_inner _ _ K) as [L1 N1].
  eapply keeps_id_trans; [apply IH; assumption|exact K].
Qed.

Lemma iapd_fold_keeps outs : forall r, p_layers r = [] -> p_inner r <> None ->
  keeps_id (fold_left (fun rr ia => resp_add OPT_IAPD (enc_iapd ia) rr) outs r) r.
Proof.
  induction outs as [|ia outs IH]; intros r Hl Hn; cbn [fold_left]; [apply keeps_id_refl; assumption|].
  assert (K : keeps_id (resp_add OPT_IAPD (enc_iapd ia) r) r) by (apply resp_add_keeps; try discriminate; assumption).
  destruct (keeps_id_inner _ _ K) as [L1 N1].
  eapply keeps_id_trans; [apply IH; assumption|exact K].
Qed.

Lemma inst6_id_preserving now i : id_preserving (as_handler6 now i).
Proof.
  intros req r Hl Hn. unfold as_handler6, as_handler. destruct i as [p|st|t]; cbn [inst6_call snd].
  - destruct p; cbn [plug6_handler].
    + destruct (p_inner req) as [m|]; [|reflexivity].
      destruct (oro_has 23 m); [apply resp_update_keeps; try discriminate; assumption|apply keeps_id_refl; assumption].
    + apply resp_update_keeps; try discriminate; assumption.
    + destruct opt59 as [v59|]; [|apply keeps_id_refl; assumption].
      destruct (p_inner req) as [m|]; [|reflexivity]. apply nbp_fold_keeps; assumption.
    + apply keeps_id_refl; assumption.
    + destruct (p_inner req) as [m|]; [|reflexivity].
      destruct (o6_get OPT_SERVERID (i_opts m)) as [sid|].
      * destruct (existsb (N.eqb (i_type m)) drop_types_with_sid); [reflexivity|].
        destruct (negb (bytes_eqb sid duid)); [reflexivity|apply resp_update_keeps; try discriminate; assumption].
      * destruct (existsb (N.eqb (i_type m)) drop_types_without_sid); [reflexivity|apply resp_update_keeps; try discriminate; assumption].
  - destruct (p_inner req) as [m|]; [|reflexivity].
    destruct (prefix_handle now st (o6_get OPT_CLIENTID (i_opts m)) (dec_pds m)) as [st' o]. cbn [snd].
    destruct o as [|outs|]; [reflexivity|apply iapd_fold_keeps; assumption|reflexivity].
  - unfold file_handler6. destruct (p_inner req) as [m|]; [|reflexivity].
    destruct (o6_get OPT_IANA (i_opts m)) as [ia|]; [|apply keeps_id_refl; assumption].
    destruct (extract_mac req) as [mac|]; [|apply keeps_id_refl; assumption].
    destruct (ft_get (RangePlugin.mac_string mac) t) as [ip|]; [apply resp_add_keeps; try discriminate; assumption|apply keeps_id_refl; assumption].
Qed.

(* C12 for the assembled server: whatever chain of instances, in whatever state *)
Theorem assembled_reply6_matches_request is lif now oob pip pport d is' p dip dport ifx :
  srv6_step dec_pds enc_iapd is lif now oob pip pport (Some d) = (is', O6Sent p dip dport ifx) ->
  exists msg rm, p_inner d = Some msg /\ p_inner p = Some rm /\
    i_xid rm = i_xid msg /\ o6_get OPT_CLIENTID (i_opts rm) = o6_get OPT_CLIENTID (i_opts msg) /\
    o6_get OPT_CLIENTID (i_opts msg) <> None /\
    ((i_type msg = MT_SOLICIT /\ o6_get OPT_RAPID (i_opts msg) = None /\ i_type rm = MT_ADVERTISE /\ o6_get OPT_RAPID (i_opts rm) = None) \/
     (i_type msg = MT_SOLICIT /\ o6_get OPT_RAPID (i_opts msg) <> None /\ i_type rm = MT_REPLY /\ o6_get OPT_RAPID (i_opts rm) <> None) \/
     (In (i_type msg) reply_types /\ i_type rm = MT_REPLY)).
Proof.
  intros H. pose proof (srv6_refines_handle6 _ _ _ _ _ _ _ _ _ H ltac:(discriminate)) as Rf. cbn [out6_of] in Rf.
  destruct (handle6 (map (as_handler6 now) is) lif oob pip pport (Some d)) as [o lg] eqn:E. cbn [fst] in Rf. subst o.
  apply (reply6_matches_request (map (as_handler6 now) is) lif oob pip pport d p dip dport ifx lg); [|exact E].
  apply Forall_forall. intros h Hh. apply in_map_iff in Hh. destruct Hh as (i & <- & _). apply inst6_id_preserving.
Qed.

(* the bridge in the form the C12 theorems consume (relay_reply_mirrors, direct_reply_unwrapped,
   reply6_type_table, ...) *)
Theorem assembled_sent_is_handle6_sent is lif now oob pip pport d is' p dip dport ifx :
  srv6_step dec_pds enc_iapd is lif now oob pip pport (Some d) = (is', O6Sent p dip dport ifx) ->
  exists log, handle6 (map (as_handler6 now) is) lif oob pip pport (Some d) = (Sent6 p dip dport ifx, log).
Proof.
  intros H. pose proof (srv6_refines_handle6 _ _ _ _ _ _ _ _ _ H ltac:(discriminate)) as Rf. cbn [out6_of] in Rf.
  destruct (handle6 (map (as_handler6 now) is) lif oob pip pport (Some d)) as [o lg]. cbn [fst] in Rf. subst o.
  exists lg. reflexivity.
Qed.
End V6.
