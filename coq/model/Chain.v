(* Chain.v — the dispatch loop of HandleMsg4 / HandleMsg6 (server/handle.go), generic in the
   request type Q and the response type R, with an invocation log. *)
From Verif Require Import Base.

Section Chain.
Context {Q R : Type}.

(* a handler: request, response so far (None = nil) -> response, stop *)
Definition handler := Q -> option R -> (option R * bool).

(* for _, handler := range l.handlers { resp, stop = handler(req, resp); if stop { break } }
   the log records, per invocation, the handler's index and the response it was handed *)
Fixpoint run_chain (hs : list handler) (idx : nat) (req : Q) (resp : option R)
  : option R * list (nat * option R) :=
  match hs with
  | [] => (resp, [])
  | h :: hs' =>
      let '(r, stop) := h req resp in
      if stop then (r, [(idx, resp)])
      else let '(r', log) := run_chain hs' (S idx) req r in (r', (idx, resp) :: log)
  end.
End Chain.
Arguments handler : clear implicits.
