(* FrameRun.v — executable cases tying lib/Frame.v to server/sendEthernet.go: the source hardware
   address and reply handed to sendEthernet, and the frame read back from the interface (or the
   error / panic). *)
From Coq Require Import List NArith.
From Verif Require Import Base Net Msg4 IpcalcRun Frame.
Import ListNotations.
Open Scope N_scope.

Inductive fres := FBytes (b : bytes) | FErr | FPanic.
Inductive fcase := CFrame (mac : bytes) (m : msg4) (obs : fres).

Definition check_fcase (c : fcase) : bool :=
  match c with
  | CFrame mac m obs =>
      match enc_frame mac m, obs with
      | Ok b, FBytes w => bytes_eqb b w
      | Err _, FErr => true
      | Panic, FPanic => true
      | _, _ => false
      end
  end.

Definition mismatches (l : list fcase) : list nat := mismatch_idx check_fcase l 0.
